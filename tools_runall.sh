#!/bin/sh
# runs the quick (or given) tier of every claimed check on the current tree; prints one line each
tier=${1:-quick}
cd /verif
for p in $(python3 -c "import json;print(' '.join(c['property_id'] for c in json.load(open('MANIFEST.json'))['checks']))"); do
  s=$(date +%s)
  timeout 7200 ./check $p --tier $tier > /tmp/runall.$p.log 2>&1; rc=$?
  echo "$p rc=$rc $(( $(date +%s) - s ))s $(grep -cE '^VIOLATION' /tmp/runall.$p.log) violations $(grep -cE '^KNOWN' /tmp/runall.$p.log) known"
done
