#!/bin/sh
# runs the quick (or given) tier of every claimed check on the current tree; prints one line each
tier=${1:-quick}
cd "$(dirname "$0")"
for p in $(python3 -c "import json;print(' '.join(c['property_id'] for c in json.load(open('MANIFEST.json'))['checks']))"); do
  s=$(date +%s)
  timeout 14400 ./check $p --tier $tier > /tmp/runall.$tier.$p.log 2>&1; rc=$?
  echo "$p rc=$rc $(( $(date +%s) - s ))s $(grep -cE '^VIOLATION' /tmp/runall.$tier.$p.log) violations $(grep -cE '^KNOWN' /tmp/runall.$tier.$p.log) known"
done
