import json
claimed = {
 "C01": ("model_checking", "TLC checks exhaustively, inside the U_small bounds, that the cursor machine (Codec.tla, shaped after bp.py) refines the documented layout (Wire.tla: Enc/Bytes); every encode of the real generated Python code on seeded random schemas x values is recorded as a trace and TLC decides each recorded (value, bytes) pair against Wire!Enc.", "6 C01", "TLA+ Wire/Codec spec model-checked by TLC + trace validation of recorded Python encodes against the spec"),
 "C02": ("model_checking", "TLC checks Dec(Enc(v)) = v and the decode machine against Wire!Dec on U_small (the ahead*cap skip formula is kept as a negative control that must be refuted); every encode->decode->re-encode of the real Python code (random schemas, plus every enum width x bit offset) is recorded and TLC decides each event with Wire!Dec / Wire!Enc.", "6 C02", "TLA+ Wire/Codec spec model-checked by TLC + trace validation of recorded Python round trips"),
 "C03": ("model_checking", "Same cursor machine (Codec.tla) model-checked against Wire.tla; generated C + lib/c/bitproto.c is built with gcc per (optimisation level, build layout), driven through ctypes on seeded random schemas x values, and TLC decides every recorded Encode (memory image -> bytes), Decode (bytes -> memory image on a zeroed struct) and the storage width of every leaf against Wire!Enc/Dec/Storage.", "6 C03", "TLA+ Wire/Codec spec model-checked by TLC + trace validation of recorded C Encode/Decode calls"),
 "C05": ("model_checking", "TLC explores every history of <= 1-2 permitted evolution steps over U_small and checks that the decode machine of the older schema returns the restriction of the newer value (two wrong skip formulas are kept as negative controls that must be refuted); random evolution chains are compiled for real, newer-schema bytes (checked against Wire!Enc) are decoded by older-schema Python and C code and TLC decides each result against Wire!RestrictV/Dec.", "6 C05", "TLA+ Codec/Evolution model-checked by TLC + trace validation of cross-version decodes (Python and C)"),
 "C07": ("model_checking", "Design-level containment/footprint invariants of Codec.tla with garbage above every leaf (OnlyOwnSlot, EncRefines) are model-checked; size constants of every message in C/Go/Python are decided against NBytes by TLC; Python encodes of out-of-range integers and C encodes of arbitrary storage contents are decided against Enc(Trunc(raw)); C Encode/Decode run with struct and buffer flush against PROT_NONE pages (both ends) and under ASan/UBSan on exact-size heap objects, any fault becoming an event the spec has no action for.", "6 C07", "TLA+ spec model-checked by TLC + trace validation; guard-page and ASan/UBSan fault events"),
 "C06": ("model_checking", "TLC explores BpCopyBufferBits completely (CCopy.tla: n<=80 x di x si, LE and BE variants, on provenance tags) and the big-endian staging of BpEndecodeBaseType (MC_Stage: widths 1..64 x offsets) and shows both variants produce the same wire; every BpCopyBufferBits call of the real -DBP_BIG_ENDIAN build, the U_full leaf space and an array-capacity sweep on big-endian-laid storage, and -O output under every --endian setting / preprocessor branch are recorded and decided by TLC against the CCopy machine and Wire.", "6 C06", "TLA+ CCopy/Stage spec model-checked by TLC + trace validation of the big-endian code paths"),
 "C14": ("model_checking", "The complete finite space {bool, byte, uint1..64, int1..64} x offset 0..7 x {scalar, alias, array element incl. batch path, aliased array, array of alias} x basis values is executed in the Python runtime, the C runtime (LE and -DBP_BIG_ENDIAN builds) and -O output (both branches); TLC decides every recorded encode/decode against Wire and the design-level Codec/CCopy machines are model-checked.", "6 C14", "TLA+ Wire/Codec/CCopy spec model-checked by TLC + trace validation over the complete leaf space"),
 "C16": ("model_checking", "Wire!JsonOf is model-checked (MC_Json: key order, JSON determines the value, ranges); Python to_json/to_dict and the generated C Json function are run on random schemas x values, the text is parsed with order preserved and TLC decides each tree against JsonOf.", "6 C16", "TLA+ JsonOf spec model-checked by TLC + trace validation of recorded JSON output (Python and C)"),
 "C08": ("model_checking", "Compiler.tla is the front end as a state machine (one action per grammar action, guarded by exactly the checks of the constraint catalogue); valid random programs, each with one catalogue edit at a random position/nesting depth (27 rules, incl. inside imported files) and hand-aimed boundary programs on both sides of every numeric limit are rendered and given to the real parser and command line; TLC steps the machine over each program and decides acceptance, the cited file and line span, exit status and absence of output files.", "6 C08", "TLA+ Compiler state machine + TLC trace validation of the real parser/CLI on catalogue-violating programs"),
 "C11": ("model_checking", "Compiler!Lookup (innermost scope of the current file in which the whole dotted path resolves, only members pushed so far) is run by TLC over random programs on the names {A,B,C} nested to depth 3 with an imported file and `as` names; every reference recorded by the real parser (file, line, token -> definition file, line) and every field width is decided by TLC against the machine.", "6 C11", "TLA+ Compiler state machine + TLC trace validation of recorded name resolutions"),
 "C13": ("model_checking", "Compiler!EvalCalc (precedence climbing over the token list) is model-checked against arithmetic templates (MC_Expr) and run by TLC over random constant programs; the parsed value of every constant, the capacities/options using it and the value denoted by the literal emitted into Python (import), C (compiled probe) and Go (lexical rules) are decided by TLC.", "6 C13", "TLA+ expression evaluator model-checked + TLC trace validation of constant values in parser and generated code"),
 "C09": ("model_checking", "Outcome typing (a schema, a ParserError, an OSError; nothing else; within 10 s) is decided by TLC for every input: declaration-level mutants of valid programs, for which the Compiler machine also gives the exact acceptance verdict and whose step counter is bounded (termination), character/token/line mutants and truncations of the repository's own schemas and of random programs, and token soup over the lexer vocabulary; every accepted input is rendered for c, go, py and c -O and any exception other than RendererError is an event the specification has no action for.", "6 C09", "TLA+ Compiler machine (verdict + termination bound) + TLC outcome typing of mutated inputs; totality is sampled, not proved"),
 "C20": ("model_checking", "TextPos.tla computes line/column/indent of every definition's name from the layout tokens of the rendered text and lint expectations from the flat declarations (tagged conforming / clearly violating / unclear); TLC decides, per program, the AST's recorded positions, the warning set reported by the real linter, the check-only exit status and that -q changes neither exit status nor output files.", "6 C20", "TLA+ TextPos + lint expectations, TLC trace validation of recorded positions, warnings and CLI exits"),
}
checks = []
for pid, (cat, text, ref, tech) in sorted(claimed.items()):
    checks.append({
        "property_id": pid,
        "quick_cmd": "./check %s --tier quick" % pid,
        "thorough_cmd": "./check %s --tier thorough" % pid,
        "evidence_file": "/verif/evidence/%s.json" % pid,
        "replay_cmd_template": "./check %s --replay {path}" % pid,
        "engine": "bpverif",
        "level_claimed": {"category": cat, "text": text, "design_ref": "DESIGN.md section " + ref},
        "level_note": "Trusted: TLC/SANY + CommunityModules; the harness projection (program -> text renderer, Python int <-> sign-magnitude bit list); the generator's intended type tree. Exhaustive only inside the stated small bounds; the unbounded schema x value space is sampled (seeded).",
        "technique": tech,
    })
props = [json.loads(l)["id"] for l in open("/verif/properties.jsonl")]
na = [{"property_id": p, "reason": "check not built yet in this round (planned, see DESIGN.md section 6); not claimed until its check is sound"}
      for p in props if p not in claimed]
m = {
 "version": 1,
 "setup_cmd": "cd /verif && ./setup.sh",
 "hooks": {
  "guard": "BITPROTO_VERIF",
  "enable": "no source hooks: the harness wraps bitprotolib.bp functions at import time when BITPROTO_VERIF=1 (set by the checks themselves); /repo is imported from the working tree via sys.path",
  "baseline_off_cmd": "cd /repo && PYTHONPATH=/repo/compiler:/repo/lib/py /venv/bin/python -m pytest -ra -q -p no:cacheprovider --timeout=900 --continue-on-collection-errors",
  "source_commits": [],
  "add_only": True
 },
 "engines": [{"name": "bpverif", "path": "/verif/bpverif", "serves_properties": sorted(claimed),
              "kind_free_text": "TLA+ specification (spec/*.tla) checked by TLC; Python harness that renders abstract schemas, drives the real compiler/runtimes and records traces which TLC validates against the specification"}],
 "checks": checks,
 "not_applicable": na,
 "notes": "Fix commits in /repo are listed in known_findings.json ('fixed'). exit 2 = machinery failure."
}
json.dump(m, open("/verif/MANIFEST.json", "w"), indent=1)
