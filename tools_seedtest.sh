#!/bin/sh
# usage: tools_seedtest.sh <seeded dir> <property> [tier]   -- applies the patch to /repo, runs the check, undoes it
d=$1; p=$2; t=${3:-quick}
git -C /repo status --short | grep -q . && { echo "repo dirty"; exit 3; }
git -C /repo apply "$(realpath $d)/patch.diff" || { echo "patch does not apply"; exit 3; }
timeout 3000 /verif/check $p --tier $t > /tmp/seedtest.$$.log 2>&1; rc=$?
git -C /repo checkout -- . 
grep -E "^VIOLATION|^KNOWN|^MACHINERY|^C[0-9]+ " /tmp/seedtest.$$.log | head -8
grep -A1 "^VIOLATION" /tmp/seedtest.$$.log | grep "why" | head -3
rm -f /tmp/seedtest.$$.log
echo "exit=$rc"
