#!/bin/sh
# usage: tools_seedloop.sh [seed ids...]   -- regression over the seeded changes without touching /repo: each patch is
# applied to a scratch worktree of /repo HEAD, the quick tier of the seed's own check runs against it (BPVERIF_REPO),
# evidence and replays of these runs go to a scratch directory.  Prints one line per seed; "MISSED" if exit != 1.
W=${SEEDLOOP_WT:-/tmp/wt-seedloop}
E=/tmp/seedloop-evidence.$$
mkdir -p $E
cd "$(dirname "$0")"
ids="$@"
[ -z "$ids" ] && ids=$(ls seeded)
git -C /repo worktree remove --force $W 2>/dev/null
git -C /repo worktree add -q --detach $W HEAD || exit 3
for id in $ids; do
  p=${id%%-*}
  git -C $W checkout -q -- . ; git -C $W clean -fdq
  if ! git -C $W apply "$(pwd)/seeded/$id/patch.diff" 2>/dev/null; then echo "$id PATCH-DOES-NOT-APPLY"; continue; fi
  s=$(date +%s)
  BPVERIF_REPO=$W BPVERIF_EVIDENCE=$E BPVERIF_REPLAYS=$E/replays timeout 3000 ./check $p --tier quick > $E/$id.log 2>&1; rc=$?
  why=$(grep -A1 "^VIOLATION" $E/$id.log | grep why | head -1 | cut -c1-110)
  if [ $rc -eq 1 ]; then echo "$id caught $(( $(date +%s) - s ))s $why"; else echo "$id MISSED rc=$rc $(( $(date +%s) - s ))s"; fi
done
git -C /repo worktree remove --force $W
rm -rf $E
