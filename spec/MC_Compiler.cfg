SPECIFICATION Spec
CONSTANTS MaxDecls = 4
INVARIANT AcceptIffValid
INVARIANT ResolvesToVisible
INVARIANT Terminates
CHECK_DEADLOCK FALSE
