SPECIFICATION Spec
CONSTANTS MaxDecls = 4
          Placed = FALSE
INVARIANT AcceptIffValid
INVARIANT ResolvesToVisible
INVARIANT Terminates
CHECK_DEADLOCK FALSE
