----------------------------- MODULE MC_Compiler -----------------------------
(***************************************************************************)
(* Small-scope exhaustive exploration of the front-end machine: TLC WRITES *)
(* every single-file program of at most MaxDecls declarations over the     *)
(* names {A, B} (messages nested up to depth 2, enums, aliases, constants, *)
(* fields whose types are base types or paths over {A, B}), runs           *)
(* Compiler!CStep over it, and compares the operational machine with a     *)
(* DECLARATIVE restatement of C11 / C08 computed from positions in the     *)
(* finished text:                                                          *)
(*   Visible(ds, pos, path) - the declaration a path denotes at pos        *)
(*   Valid(ds)              - the catalogue rules this menu can violate    *)
(***************************************************************************)
EXTENDS Compiler

CONSTANTS MaxDecls,
          Placed      \* TRUE: the writer puts fields only inside messages and aliases / constants only at file
                      \* scope, so that longer programs fit and most rejections come from names and resolution

Names == {"A", "B"}
Paths == {<<"A">>, <<"B">>, <<"A", "B">>, <<"B", "A">>, <<"A", "A">>}
TypeExprs == {[k |-> "uint", n |-> 3]} \cup {[k |-> "ref", path |-> p] : p \in Paths}

(* the menu: every declaration carries line = its position (one per line) *)
Menu(L) ==
    {[d |-> "openMsg", name |-> n, ext |-> FALSE, line |-> L] : n \in Names}
    \cup {[d |-> "closeMsg", line |-> L]}
    \cup {[d |-> "field", name |-> f, num |-> L, t |-> te, line |-> L] : f \in {"x"}, te \in TypeExprs}
    \cup {[d |-> "openEnum", name |-> n, n |-> 2, line |-> L] : n \in Names}
    \cup {[d |-> "alias", name |-> n, t |-> [k |-> "uint", n |-> 5], line |-> L] : n \in Names}
    \cup {[d |-> "const", name |-> n, v |-> [e |-> "calc", toks |-> << <<"int", 1>> >>], line |-> L] : n \in Names}

VARIABLES ds, open     \* declarations written so far (after the proto line); nesting depth of open scopes
vars == <<ds, open>>

ProtoLine == [d |-> "proto", name |-> "p", line |-> 1]

Init == ds = << ProtoLine >> /\ open = <<>>

(* the writer keeps brackets balanced and enums closed at once (an enum is *)
(* written as open, close) so that the space stays small                   *)
Write ==
    /\ Len(ds) < MaxDecls + 1
    /\ \E d \in Menu(Len(ds) + 1) :
        /\ (d.d = "closeMsg") => (open # <<>>)
        /\ (d.d = "openMsg") => (Len(open) < 2)
        /\ (Placed /\ d.d = "field") => (open # <<>>)
        /\ (Placed /\ d.d \in {"alias", "const"}) => (open = <<>>)
        /\ IF d.d = "openEnum"
           THEN /\ Len(ds) + 2 <= MaxDecls + 1
                /\ ds' = ds \o << d, [d |-> "closeEnum", line |-> Len(ds) + 2] >>
                /\ open' = open
           ELSE /\ ds' = Append(ds, d)
                /\ open' = IF d.d = "openMsg" THEN Append(open, Len(ds) + 1)
                           ELSE IF d.d = "closeMsg" THEN SubSeq(open, 1, Len(open) - 1) ELSE open
Next == Write
Spec == Init /\ [][Next]_vars

Files == << [name |-> "p", decls |-> ds] >>
Result == CRun(CInit(Files, 1, FALSE))
Complete == open = <<>>

(* ---------------- declarative side: positions in the finished text ---------------- *)
(* the opener matching the closer at position c *)
RECURSIVE OpenerOf(_, _, _)
OpenerOf(c, x, depth) ==       \* scan left from c-1
    IF x < 1 THEN 0
    ELSE IF ds[x].d \in {"closeMsg", "closeEnum"} THEN OpenerOf(c, x - 1, depth + 1)
    ELSE IF ds[x].d \in {"openMsg", "openEnum"}
         THEN IF depth = 0 THEN x ELSE OpenerOf(c, x - 1, depth - 1)
    ELSE OpenerOf(c, x - 1, depth)
RECURSIVE CloserOf(_, _, _)
CloserOf(o, x, depth) ==       \* scan right from o+1
    IF x > Len(ds) THEN 0
    ELSE IF ds[x].d \in {"openMsg", "openEnum"} THEN CloserOf(o, x + 1, depth + 1)
    ELSE IF ds[x].d \in {"closeMsg", "closeEnum"}
         THEN IF depth = 0 THEN x ELSE CloserOf(o, x + 1, depth - 1)
    ELSE CloserOf(o, x + 1, depth)

(* the scope (opener position, 0 = file) a position lies directly in *)
RECURSIVE ParentOf(_, _, _)
ParentOf(pos, x, depth) ==
    IF x < 1 THEN 0
    ELSE IF ds[x].d \in {"closeMsg", "closeEnum"} THEN ParentOf(pos, x - 1, depth + 1)
    ELSE IF ds[x].d \in {"openMsg", "openEnum"}
         THEN IF depth = 0 THEN x ELSE ParentOf(pos, x - 1, depth - 1)
    ELSE ParentOf(pos, x - 1, depth)
Parent(pos) == ParentOf(pos, pos - 1, 0)

IsNamed(x) == ds[x].d \in {"openMsg", "openEnum", "alias", "const", "field"}
(* a definition is a member of its scope from the moment it is COMPLETE: a scope when it closes *)
MemberSince(x) == IF ds[x].d \in {"openMsg", "openEnum"} THEN CloserOf(x, x + 1, 0) ELSE x

(* members of scope s (opener position or 0) named n that are complete before position pos *)
MembersNamed(s, n, pos) ==
    {x \in 1..Len(ds) : IsNamed(x) /\ ds[x].name = n /\ Parent(x) = s
                        /\ MemberSince(x) # 0 /\ MemberSince(x) < pos}
(* names are unique per scope in a valid program; the first declared wins otherwise (the second is rejected) *)
FirstOf(S) == CHOOSE x \in S : \A y \in S : x <= y

RECURSIVE Descend(_, _, _)
Descend(s, path, pos) ==       \* resolve path inside scope s; 0 if it does not resolve
    LET S == MembersNamed(s, path[1], pos)
    IN  IF S = {} THEN 0
        ELSE LET x == FirstOf(S)
             IN  IF Len(path) = 1 THEN x
                 ELSE IF ds[x].d \in {"openMsg", "openEnum"} THEN Descend(x, Tail(path), pos) ELSE 0

RECURSIVE VisibleFrom(_, _, _)
VisibleFrom(s, path, pos) ==   \* innermost scope first, then outward to the file scope
    LET r == Descend(s, path, pos)
    IN  IF r # 0 THEN r ELSE IF s = 0 THEN 0 ELSE VisibleFrom(Parent(s), path, pos)
Visible(pos, path) == VisibleFrom(Parent(pos), path, pos)

IsTypeDecl(x) == ds[x].d \in {"openMsg", "openEnum", "alias"}

(* the rules this menu can break, stated over the finished text *)
FieldOK(x) ==
    /\ Parent(x) # 0 /\ ds[Parent(x)].d = "openMsg"
    /\ (ds[x].t.k = "ref") => (Visible(x, ds[x].t.path) # 0 /\ IsTypeDecl(Visible(x, ds[x].t.path)))
UniqueInScope(x) == ~\E y \in 1..(x - 1) : IsNamed(y) /\ ds[y].name = ds[x].name /\ Parent(y) = Parent(x)
                                           /\ (MemberSince(y) < MemberSince(x))
DeclOK(x) ==
    CASE ds[x].d = "field" -> FieldOK(x) /\ ~\E y \in 1..(x - 1) : ds[y].d = "field" /\ Parent(y) = Parent(x)
      [] ds[x].d \in {"alias", "const"} -> Parent(x) = 0 /\ UniqueInScope(x)
      [] ds[x].d \in {"openMsg", "openEnum"} ->
            /\ (Parent(x) # 0 => ds[Parent(x)].d = "openMsg")
            /\ \* the name is checked when the scope closes, against what its parent holds then
               ~\E y \in 1..Len(ds) : y # x /\ IsNamed(y) /\ ds[y].name = ds[x].name /\ Parent(y) = Parent(x)
                                       /\ MemberSince(y) # 0 /\ MemberSince(y) < MemberSince(x)
      [] OTHER -> TRUE
Valid == \A x \in 2..Len(ds) : DeclOK(x)

(* ---------------- the invariants ---------------- *)
(* C08 (for this menu): the machine accepts exactly the valid programs *)
AcceptIffValid == Complete => ((Result.status = "accepted") <=> Valid)

(* C11: every resolution the machine recorded is the declaratively visible definition, and it *)
(* textually precedes the use                                                                  *)
ResolvesToVisible ==
    Complete => \A r \in 1..Len(Result.refs) :
        /\ Result.refs[r].dline = Visible(Result.refs[r].line, Result.refs[r].path)
        /\ Result.refs[r].dline < Result.refs[r].line

(* C09: the machine terminates within one step per declaration plus the end of file *)
Terminates == Complete => Result.status \in {"accepted", "rejected"}
=============================================================================
