------------------------------ MODULE MC_Stage ------------------------------
(***************************************************************************)
(* BpEndecodeBaseType on a big-endian host (bitproto.c:349-365): staging   *)
(* a field through a little-endian byte view.  For every width 1..64:      *)
(* copying n bits out of the staged image of big-endian storage yields the *)
(* integer's bits 0..n-1 in order (so the wire equals the little-endian    *)
(* host's), and staging out inverts staging in.  On provenance tags.       *)
(***************************************************************************)
EXTENDS CCopy

VARIABLES nbits, off
Init == nbits \in 1..64 /\ off \in 0..7
Next == UNCHANGED <<nbits, off>>
Spec == Init /\ [][Next]_<<nbits, off>>

Size == StorageBytes(nbits)
(* big-endian storage of an integer whose bit q carries tag 100+q *)
BEMem == [p \in 1..(8 * Size) |->
            LET k == (p - 1) \div 8       \* memory byte index
                b == (p - 1) % 8          \* bit inside that byte
            IN  100 + (8 * (Size - 1 - k) + b)]
LEMem == [p \in 1..(8 * Size) |-> 100 + (p - 1)]

EncodeSameWire ==
    LET le == StageIn(BEMem, nbits)
        zero == [p \in 1..(8 * 10) |-> 0]
        viaBE == CCRun(CCInit(nbits, off, 0, le, zero), TRUE).dst
        viaLE == CCRun(CCInit(nbits, off, 0, LEMem, zero), FALSE).dst
    IN  \A p \in 1..Len(zero) : (p - 1 >= off /\ p - 1 < off + nbits) => viaBE[p] = viaLE[p]

DecodeSameValue ==
    LET wire == [p \in 1..(8 * 10) |-> 500 + p]
        zero64 == [p \in 1..64 |-> 0]
        zeroS == [p \in 1..(8 * Size) |-> 0]
        le == CCRun(CCInit(nbits, 0, off, wire, zero64), TRUE).dst
        beMem == StageOut(le, nbits)
        leMem == CCRun(CCInit(nbits, 0, off, wire, zeroS), FALSE).dst
    IN  \* bit q of the integer is the same wire bit on both hosts
        \A q \in 0..(nbits - 1) : BEBit(beMem, Size, q) = leMem[q + 1]

RoundTrip == \A p \in 1..(8 * Size) : StageOut(StageIn(BEMem, nbits), nbits)[p] = BEMem[p]
=============================================================================
