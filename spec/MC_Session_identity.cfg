SPECIFICATION Spec
CONSTANTS CacheKeying = "identity"
INVARIANT Functional
INVARIANT Deterministic
CHECK_DEADLOCK FALSE
