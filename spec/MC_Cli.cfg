SPECIFICATION Spec
INVARIANT RefusesExtensible
INVARIANT RefusesLanguage
INVARIANT RefusesFWithoutO
INVARIANT ExitIffNoFiles
INVARIANT FilterOnlyHides
INVARIANT WarningsOnlyMatterForCheck
CHECK_DEADLOCK FALSE
