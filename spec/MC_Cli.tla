-------------------------------- MODULE MC_Cli --------------------------------
(***************************************************************************)
(* The whole configuration space of the command line for a schema with     *)
(* messages {A, B, N}: C17's claims as invariants of Cli!CliOutcome.       *)
(***************************************************************************)
EXTENDS Cli

Msgs == {"A", "B", "N"}
VARIABLES cfg, hasExt, warnings
Init ==
    /\ cfg \in [lang : {"c", "go", "py", ""}, O : BOOLEAN, F : SUBSET (Msgs \cup {"Zz"}), useF : BOOLEAN, check : BOOLEAN]
    /\ hasExt \in BOOLEAN /\ warnings \in {0, 2}
Next == UNCHANGED <<cfg, hasExt, warnings>>
Spec == Init /\ [][Next]_<<cfg, hasExt, warnings>>

ParseOK(c) == ~(TraditionalParse(c) /\ hasExt)
Out(c) == CliOutcome(c, ParseOK(c), warnings, Msgs)

(* -O refuses every schema with an extensible marker, whatever else is asked *)
RefusesExtensible == (cfg.O /\ ~cfg.check /\ hasExt) => (Out(cfg).exit = 1 /\ ~Out(cfg).files)
(* -O refuses languages without optimization mode; -F without -O is refused *)
RefusesLanguage == (cfg.O /\ ~cfg.check /\ ~hasExt /\ cfg.lang = "py") => (Out(cfg).exit = 1 /\ ~Out(cfg).files)
RefusesFWithoutO == (~cfg.O /\ ~cfg.check /\ cfg.lang # "" /\ cfg.useF /\ cfg.F # {}) => Out(cfg).exit = 1
(* every refusal is a non-zero exit without output; every success writes files *)
ExitIffNoFiles == ~cfg.check => ((Out(cfg).exit = 0) <=> Out(cfg).files)
(* -F only hides functions: what is generated for S is what is generated without -F, restricted to S *)
FilterOnlyHides ==
    LET all == Out([cfg EXCEPT !.useF = FALSE]) IN
    (Out(cfg).files /\ cfg.O) => (Out(cfg).funcs = (IF cfg.useF /\ cfg.F # {} THEN all.funcs \cap cfg.F ELSE all.funcs))
(* the outcome does not depend on -F when -O is absent and -F is empty, nor on lint warnings unless -c *)
WarningsOnlyMatterForCheck == ~cfg.check => Out(cfg) = CliOutcome(cfg, ParseOK(cfg), 0, Msgs)

(* the spelling of the -F list: for every token sequence of at most 5 tokens over two names, the   *)
(* comma and the blank, a message name is selected exactly when it stands alone between two        *)
(* separators (commas or the ends), with nothing but blanks around it                             *)
Alphabet == {"A", "B", ",", " "}
Spellings == UNION {[1..n -> Alphabet] : n \in 0..5}
Alone(toks, i) ==
    LET lo == IF \E x \in 1..(i - 1) : toks[x] = ","
              THEN (CHOOSE x \in 1..(i - 1) : toks[x] = "," /\ \A y \in (x + 1)..(i - 1) : toks[y] # ",") ELSE 0
        hi == IF \E x \in (i + 1)..Len(toks) : toks[x] = ","
              THEN (CHOOSE x \in (i + 1)..Len(toks) : toks[x] = "," /\ \A y \in (i + 1)..(x - 1) : toks[y] # ",")
              ELSE Len(toks) + 1
    IN  \A x \in ((lo + 1)..(hi - 1)) \ {i} : toks[x] = " "
SpellingSelects ==
    \A toks \in Spellings : \A n \in {"A", "B"} :
        (n \in FilterNames(toks)) <=> (\E i \in 1..Len(toks) : toks[i] = n /\ Alone(toks, i))
ASSUME SpellingSelects
=============================================================================
