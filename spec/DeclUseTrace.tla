---------------------------- MODULE DeclUseTrace ----------------------------
(***************************************************************************)
(* Batch validation of C10 traces: per generated artefact the toolchain    *)
(* verdicts (events the specification only accepts when ok), the C / C++   *)
(* layout comparison, and the DeclUse machine over the scanned text.       *)
(***************************************************************************)
EXTENDS DeclUse, TLC, Json, IOUtils

Batch == JsonDeserialize(IOEnv.TRACE_FILE)
Traces == Batch.traces

VARIABLES tid, tr, l, du, why
tvars == <<tid, tr, l, du, why>>

Init == \E T \in {Traces} : \E k \in 1..Len(T) :
            /\ tid = k /\ tr = T[k] /\ l = 1 /\ why = ""
            /\ du = DUInit({}, {}, TRUE)

Fail(msg) == IF why = "" THEN ToString(l) \o ":" \o msg ELSE why

Step ==
    /\ l <= Len(tr.events)
    /\ LET e == tr.events[l] IN
       CASE e.ev = "Scan" ->
                \* a whole scanned file: run the DeclUse machine over its events
                LET s0 == DUInit({e.builtins[x] : x \in 1..Len(e.builtins)},
                                 {e.seq[x][2] : x \in {y \in 1..Len(e.seq) : e.seq[y][1] = "Declare"}}, e.ordered)
                    RECURSIVE Run(_, _)
                    Run(s, x) == IF x > Len(e.seq) THEN s ELSE Run(DUStep(s, e.seq[x]), x + 1)
                    sN == Run(s0, 1)
                IN  /\ du' = sN
                    /\ why' = IF sN.err # "" THEN Fail(e.what \o ":" \o sN.err) ELSE why
         [] e.ev = "Toolchain" ->
                /\ du' = du
                /\ why' = IF e.ok THEN why ELSE Fail("toolchain-rejects:" \o e.what)
         [] e.ev = "Render" ->
                /\ du' = du
                /\ why' = IF e.outcome = "ok" THEN why ELSE Fail("render:" \o e.what)
         [] e.ev = "Layout" ->
                \* sizeof / offsetof of every struct: the C++ view equals the C view
                /\ du' = du
                /\ why' = IF e.c = e.cpp THEN why ELSE Fail("c-vs-c++-layout:" \o e.what)
         [] e.ev = "Balanced" ->
                /\ du' = du
                /\ why' = IF e.ok THEN why ELSE Fail("unbalanced:" \o e.what)
         [] e.ev = "Raise" -> du' = du /\ why' = Fail("raise:" \o e.what)
         [] OTHER -> du' = du /\ why' = Fail("machinery:unknown-event")
    /\ l' = l + 1
    /\ UNCHANGED <<tid, tr>>

Report ==
    /\ l = Len(tr.events) + 1
    /\ PrintT("V|" \o ToString(tid) \o "|" \o (IF why = "" THEN "1" ELSE "0") \o "|" \o why)
    /\ l' = l + 1
    /\ UNCHANGED <<tid, tr, du, why>>

Next == Step \/ Report
Spec == Init /\ [][Next]_tvars
=============================================================================
