SPECIFICATION Spec
CONSTANTS MaxDecls = 4
          Placed = FALSE
INVARIANT Dump
CHECK_DEADLOCK FALSE
