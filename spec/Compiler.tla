------------------------------ MODULE Compiler ------------------------------
(***************************************************************************)
(* The compiler front end (compiler/bitproto/{parser,_ast,lexer,options}   *)
(* .py) as a state machine: a single left-to-right pass over declarations  *)
(* that maintains a stack of files being parsed and a stack of open        *)
(* scopes, pushes each finished definition into the innermost open scope,  *)
(* resolves every name against what has been pushed so far, validates on   *)
(* push and on scope close, and ends accepted or rejected.                 *)
(*                                                                         *)
(* A program is a sequence of files [name, decls]; decls is the FLAT list  *)
(* of declarations in text order (openMsg ... closeMsg), each with the     *)
(* line its name token stands on.  One step = one grammar action with side *)
(* effects (p_* in parser.py); the step function CStep is pure, the        *)
(* machine in MC_Compiler / CompilerTrace applies it.                      *)
(*                                                                         *)
(* Definition values ("defs") are records that contain their own members,  *)
(* like the AST: [k |-> "const" | "alias" | "enum" | "msg" | "proto" |     *)
(* "field" | "efield" | "option", file, line, ...].                        *)
(***************************************************************************)
EXTENDS Types

(* ---------------- small helpers ---------------- *)
\* Last and Front come from SequencesExt
SetLast(s, x) == [s EXCEPT ![Len(s)] = x]

(* members: ordered list of [name, def]; names are unique per scope *)
HasMember(ms, name) == \E x \in 1..Len(ms) : ms[x].name = name
Member(ms, name) == ms[CHOOSE x \in 1..Len(ms) : ms[x].name = name].def

IsScopeDef(d) == d.k \in {"msg", "enum", "proto"}
IsTypeDef(d) == d.k \in {"alias", "enum", "msg"}      \* isinstance(d, Type) in p_type_reference

None == [k |-> "none"]

(* Scope.get_member of a name path: descend through scopes; None if any step fails *)
RECURSIVE GetMember(_, _)
GetMember(ms, path) ==
    IF ~HasMember(ms, path[1]) THEN None
    ELSE With(Member(ms, path[1]), LAMBDA d :
            IF Len(path) = 1 THEN d
            ELSE IF IsScopeDef(d) THEN GetMember(d.members, Tail(path))
            ELSE None)

(* the resolved type a type definition denotes; carries the definition's   *)
(* identity (file, line) so that C11 can see WHICH definition was chosen   *)
TypeOfDef(d) ==
    CASE d.k = "alias" -> [k |-> "alias", name |-> d.name, to |-> d.t, dfile |-> d.file, dline |-> d.line]
      [] d.k = "enum" -> [k |-> "enum", n |-> d.n, name |-> d.name, dfile |-> d.file, dline |-> d.line,
                          \* the member values in declaration order (bit sequences): the enum's value domain
                          vals |-> [x \in 1..Len(d.members) |-> d.members[x].def.bits]]
      [] d.k = "msg" -> [k |-> "msg", name |-> d.name, ext |-> d.ext, fields |-> d.fields,
                         dfile |-> d.file, dline |-> d.line]

(* ---------------- the state ---------------- *)
(* frames: one per file being parsed (parser instances share scope_stack)  *)
(*   [file, pos, base, imports, pname, asname, impline]                    *)
(* scopes: the shared scope stack                                          *)
(*   [kind: "proto"|"msg"|"enum", name, ext, n, line, members, maxbytes]   *)
CInit(files, main, trad) ==
    [files |-> files, trad |-> trad, status |-> "run",
     frames |-> << [file |-> main, pos |-> 1, base |-> 0, imports |-> <<>>, pname |-> "",
                    asname |-> "", impline |-> 0] >>,
     scopes |-> << [kind |-> "proto", name |-> "", ext |-> FALSE, n |-> 0, line |-> 1,
                    members |-> <<>>, maxbytes |-> 0] >>,
     err |-> [kind |-> "", file |-> "", l1 |-> 0, l2 |-> 0],
     refs |-> <<>>,      \* every successful name resolution: [file, line, path, dfile, dline, dk]
     result |-> None]

Fr(cs) == Last(cs.frames)
FileName(cs) == cs.files[Fr(cs).file].name
Decls(cs) == cs.files[Fr(cs).file].decls
Cur(cs) == Last(cs.scopes)
AtFileScope(cs) == Len(cs.scopes) = Fr(cs).base + 1

Reject(cs, kind, l1, l2) ==
    [cs EXCEPT !.status = "rejected",
               !.err = [kind |-> kind, file |-> FileName(cs), l1 |-> l1, l2 |-> l2]]

(* _lookup_referenced_member: the current file's scopes, innermost first;  *)
(* the first scope in which the WHOLE dotted path resolves                 *)
RECURSIVE LookupFrom(_, _, _, _)
LookupFrom(scopes, k, base, path) ==
    IF k <= base THEN None
    ELSE With(GetMember(scopes[k].members, path), LAMBDA d :
            IF d.k # "none" THEN d ELSE LookupFrom(scopes, k - 1, base, path))
Lookup(cs, path) == LookupFrom(cs.scopes, Len(cs.scopes), Fr(cs).base, path)

NoteRef(cs, line, path, d) ==
    [cs EXCEPT !.refs = Append(@, [file |-> FileName(cs), line |-> line, path |-> path,
                                   dfile |-> d.file, dline |-> d.line, dk |-> d.k])]

(* ---------------- constant expressions ---------------- *)
(* A calculation expression is a TOKEN LIST: <<"int", v>>, <<"ref", path>>, *)
(* <<"op", "+">> ... <<"lp">>, <<"rp">>.  Evaluation is by precedence       *)
(* climbing: * and / bind tighter than + and -, all left associative, / is *)
(* integer (floor) division.  The result is [ok, v, i, why].               *)
TokIs(toks, i, a) == i <= Len(toks) /\ toks[i][1] = a
TokOp(toks, i, ops) == i <= Len(toks) /\ toks[i][1] = "op" /\ toks[i][2] \in ops

Bad(why, i) == [ok |-> FALSE, v |-> 0, i |-> i, why |-> why]
Good(v, i) == [ok |-> TRUE, v |-> v, i |-> i, why |-> ""]
InModel(v) == v > -1073741824 /\ v < 1073741824
Abs(v) == IF v < 0 THEN 0 - v ELSE v
MulInModel(x, y) == x = 0 \/ y = 0 \/ Abs(x) <= 1073741823 \div Abs(y)    \* no 32-bit overflow in TLC

RECURSIVE EvExpr(_, _, _), EvTerm(_, _, _), EvAtom(_, _, _), EvExprTail(_, _, _, _), EvTermTail(_, _, _, _)
EvAtom(cs, toks, i) ==
    IF i > Len(toks) THEN Bad("grammar", i)
    ELSE IF toks[i][1] = "int" THEN Good(toks[i][2], i + 1)
    ELSE IF toks[i][1] = "ref"
         THEN With(Lookup(cs, toks[i][2]), LAMBDA d :
                IF d.k = "none" THEN Bad("undefined-constant", i)
                ELSE IF d.k # "const" THEN Bad("not-constant", i)
                ELSE IF d.vt # "int" THEN Bad("calc-non-integer", i)
                ELSE Good(d.v, i + 1))
    ELSE IF toks[i][1] = "lp"
         THEN With(EvExpr(cs, toks, i + 1), LAMBDA r :
                IF ~r.ok THEN r
                ELSE IF TokIs(toks, r.i, "rp") THEN Good(r.v, r.i + 1) ELSE Bad("grammar", r.i))
    ELSE Bad("grammar", i)
EvTermTail(cs, toks, acc, i) ==
    IF ~TokOp(toks, i, {"*", "/"}) THEN Good(acc, i)
    ELSE With(EvAtom(cs, toks, i + 1), LAMBDA r :
            IF ~r.ok THEN r
            ELSE IF toks[i][2] = "*"
                 THEN IF MulInModel(acc, r.v) THEN EvTermTail(cs, toks, acc * r.v, r.i)
                      ELSE Bad("out-of-model", i)
                 ELSE IF r.v = 0 THEN Bad("division-by-zero", i)
                      ELSE IF r.v < 0 THEN Bad("out-of-model", i)    \* TLA+ \div wants a positive divisor
                      ELSE EvTermTail(cs, toks, acc \div r.v, r.i))
EvTerm(cs, toks, i) ==
    With(EvAtom(cs, toks, i), LAMBDA r : IF ~r.ok THEN r ELSE EvTermTail(cs, toks, r.v, r.i))
EvExprTail(cs, toks, acc, i) ==
    IF ~TokOp(toks, i, {"+", "-"}) THEN Good(acc, i)
    ELSE With(EvTerm(cs, toks, i + 1), LAMBDA r :
            IF ~r.ok THEN r
            ELSE With(IF toks[i][2] = "+" THEN acc + r.v ELSE acc - r.v, LAMBDA v :
                    IF InModel(v) THEN EvExprTail(cs, toks, v, r.i) ELSE Bad("out-of-model", i)))
EvExpr(cs, toks, i) ==
    With(EvTerm(cs, toks, i), LAMBDA r : IF ~r.ok THEN r ELSE EvExprTail(cs, toks, r.v, r.i))

EvalCalc(cs, toks) ==
    With(EvExpr(cs, toks, 1), LAMBDA r :
        IF r.ok /\ r.i # Len(toks) + 1 THEN Bad("grammar", r.i) ELSE r)

(* references made by a token list, in order (for the reference record)    *)
CalcRefs(toks) == SelectSeq(toks, LAMBDA tk : tk[1] = "ref")

(* A constant / option VALUE: [e |-> "bool", v] | [e |-> "str", s] |       *)
(* [e |-> "ref", path] | [e |-> "calc", toks].  Result [ok, vt, v, why].   *)
EvalValue(cs, val, allowCalc) ==
    CASE val.e = "bool" -> [ok |-> TRUE, vt |-> "bool", v |-> val.v, why |-> ""]
      [] val.e = "str" -> [ok |-> TRUE, vt |-> "str", v |-> val.s, why |-> ""]
      [] val.e = "ref" ->
            With(Lookup(cs, val.path), LAMBDA d :
                IF d.k = "none" THEN [ok |-> FALSE, vt |-> "", v |-> 0, why |-> "undefined-constant"]
                ELSE IF d.k # "const" THEN [ok |-> FALSE, vt |-> "", v |-> 0, why |-> "not-constant"]
                ELSE [ok |-> TRUE, vt |-> d.vt, v |-> d.v, why |-> ""])
      [] val.e = "calc" ->
            IF ~allowCalc /\ ~(Len(val.toks) = 1 /\ val.toks[1][1] = "int")
            THEN [ok |-> FALSE, vt |-> "", v |-> 0, why |-> "grammar"]
            ELSE With(EvalCalc(cs, val.toks), LAMBDA r :
                    [ok |-> r.ok, vt |-> "int", v |-> r.v, why |-> r.why])

(* ---------------- types ---------------- *)
(* type expression -> [ok, t, why]; every name resolution is recorded      *)
WidthOK(n) == n >= 1 /\ n <= 64

ResolveSingle(cs, te) ==
    CASE te.k \in {"bool", "byte"} -> [ok |-> TRUE, t |-> [k |-> te.k], why |-> "", named |-> FALSE]
      [] te.k \in {"uint", "int"} ->
            IF WidthOK(te.n) THEN [ok |-> TRUE, t |-> [k |-> te.k, n |-> te.n], why |-> "", named |-> FALSE]
            ELSE [ok |-> FALSE, t |-> None, why |-> "invalid-width", named |-> FALSE]
      [] te.k = "ref" ->
            With(Lookup(cs, te.path), LAMBDA d :
                IF d.k = "none" THEN [ok |-> FALSE, t |-> None, why |-> "undefined-type", named |-> FALSE]
                ELSE IF ~IsTypeDef(d) THEN [ok |-> FALSE, t |-> None, why |-> "not-a-type", named |-> FALSE]
                ELSE [ok |-> TRUE, t |-> TypeOfDef(d), why |-> "", named |-> TRUE])

ResolveCap(cs, ce) ==
    IF ce.e = "int" THEN [ok |-> TRUE, v |-> ce.v, why |-> ""]
    ELSE With(Lookup(cs, ce.path), LAMBDA d :
            IF d.k = "none" THEN [ok |-> FALSE, v |-> 0, why |-> "undefined-constant"]
            ELSE IF d.k # "const" THEN [ok |-> FALSE, v |-> 0, why |-> "not-constant"]
            ELSE IF d.vt # "int" THEN [ok |-> FALSE, v |-> 0, why |-> "invalid-capacity"]
            ELSE [ok |-> TRUE, v |-> d.v, why |-> ""])

ResolveType(cs, te) ==
    IF te.k # "array" THEN ResolveSingle(cs, te)
    ELSE With(ResolveSingle(cs, te.elem), LAMBDA e :
            IF ~e.ok THEN e
            ELSE With(ResolveCap(cs, te.cap), LAMBDA c :
                    IF ~c.ok THEN [ok |-> FALSE, t |-> None, why |-> c.why, named |-> FALSE]
                    ELSE IF te.ext /\ cs.trad
                         THEN [ok |-> FALSE, t |-> None, why |-> "extensible-in-traditional", named |-> FALSE]
                    ELSE IF ~(c.v >= 1 /\ c.v <= 65535)
                         THEN [ok |-> FALSE, t |-> None, why |-> "invalid-capacity", named |-> FALSE]
                    ELSE [ok |-> TRUE, named |-> FALSE, why |-> "",
                          t |-> [k |-> "array", ext |-> te.ext, cap |-> c.v, elem |-> e.t]]))

(* names looked up by a type expression, in the order the parser looks     *)
TypeRefPaths(te) ==
    IF te.k = "ref" THEN << te.path >>
    ELSE IF te.k = "array"
         THEN (IF te.elem.k = "ref" THEN << te.elem.path >> ELSE <<>>)
              \o (IF te.cap.e = "ref" THEN << te.cap.path >> ELSE <<>>)
    ELSE <<>>

RECURSIVE NoteRefs(_, _, _)
NoteRefs(cs, line, paths) ==
    IF paths = <<>> THEN cs
    ELSE With(Lookup(cs, paths[1]), LAMBDA d :
            IF d.k = "none" THEN cs
            ELSE NoteRefs(NoteRef(cs, line, paths[1], d), line, Tail(paths)))

(* paths a declaration looks up *)
ValuePaths(v) == IF v.e = "ref" THEN << v.path >>
                 ELSE IF v.e = "calc" THEN [x \in 1..Len(CalcRefs(v.toks)) |-> CalcRefs(v.toks)[x][2]]
                 ELSE <<>>
DeclPaths(d) == CASE d.d \in {"alias", "field"} -> TypeRefPaths(d.t)
                  [] d.d \in {"const", "option"} -> ValuePaths(d.v)
                  [] OTHER -> <<>>

(* A dotted path whose first component is declared by a scope that does    *)
(* not contain the rest: the statement of C11 does not say whether such a  *)
(* scope hides outer definitions; the code looks further out.  Programs in *)
(* which this happens are tagged and only checked for totality.            *)
AmbiguousPath(cs, path) ==
    /\ Len(path) > 1
    /\ \E k \in (Fr(cs).base + 1)..Len(cs.scopes) :
            /\ HasMember(cs.scopes[k].members, path[1])
            /\ GetMember(cs.scopes[k].members, path).k = "none"
NextDeclAmbiguous(cs) ==
    /\ cs.status = "run" /\ Fr(cs).pos <= Len(Decls(cs))
    /\ \E x \in 1..Len(DeclPaths(Decls(cs)[Fr(cs).pos])) :
            AmbiguousPath(cs, DeclPaths(Decls(cs)[Fr(cs).pos])[x])

(* ---------------- pushing a member ---------------- *)
(* Scope.push_member: the duplicate-name guard, then the scope's own check *)
PushMember(cs, name, d) ==
    [cs EXCEPT !.scopes = SetLast(@, [Cur(cs) EXCEPT !.members = Append(@, [name |-> name, def |-> d])])]

(* ---------------- options ---------------- *)
ProtoOptions == [x \in {"c.struct_packing_alignment", "c.name_prefix", "go.package_path", "py.module_name"} |->
                    IF x = "c.struct_packing_alignment" THEN "int" ELSE "str"]
MessageOptions == [x \in {"max_bytes"} |-> "int"]
OptionTable(kind) == IF kind = "proto" THEN ProtoOptions ELSE MessageOptions

(* enum value as bit list (LSB first, no leading zeros): representable?    *)
FitsWidth(bits, n) == Len(bits) <= n

(* ---------------- one declaration ---------------- *)
Fields(ms) == SelectSeq(ms, LAMBDA m : m.def.k = "field")
FieldTypes(ms) == [x \in 1..Len(Fields(ms)) |->
                      [num |-> Fields(ms)[x].def.num, name |-> Fields(ms)[x].name, t |-> Fields(ms)[x].def.t]]

Advance(cs) == [cs EXCEPT !.frames = SetLast(@, [Fr(cs) EXCEPT !.pos = @ + 1])]

ApplyDecl(cs, d) ==
    LET kind == Cur(cs).kind
        L == d.line
    IN
    CASE d.d = "proto" ->
            IF kind # "proto" THEN Reject(cs, "forbidden-in-scope", L, L)
            ELSE Advance([cs EXCEPT !.frames = SetLast(@, [Fr(cs) EXCEPT !.pname = d.name])])
      [] d.d = "import" ->
            IF kind # "proto" THEN Reject(cs, "forbidden-in-scope", L, L)
            ELSE LET cands == {x \in 1..Len(cs.files) : cs.files[x].name = d.file}
                 IN  IF cands = {} THEN Reject(cs, "unreadable-import", L, L)
                     ELSE With(CHOOSE x \in cands : TRUE, LAMBDA target :
                        IF \E f \in 1..Len(cs.frames) : cs.frames[f].file = target
                        THEN Reject(cs, "cyclic-import", L, L)
                        ELSE IF \E x \in 1..Len(Fr(cs).imports) : Fr(cs).imports[x] = target
                        THEN Reject(cs, "duplicate-import", L, L)
                        ELSE [cs EXCEPT
                                !.frames = Append(@, [file |-> target, pos |-> 1, base |-> Len(cs.scopes),
                                                      imports |-> <<>>, pname |-> "", asname |-> d.as,
                                                      impline |-> L]),
                                !.scopes = Append(@, [kind |-> "proto", name |-> "", ext |-> FALSE, n |-> 0,
                                                      line |-> 1, members |-> <<>>, maxbytes |-> 0])])
      [] d.d = "option" ->
            IF kind = "enum" THEN Reject(cs, "forbidden-in-scope", L, L)
            ELSE With(EvalValue(cs, d.v, FALSE), LAMBDA r :
                IF ~r.ok THEN Reject(cs, r.why, L, L)
                ELSE IF HasMember(Cur(cs).members, d.name) THEN Reject(cs, "duplicate-name", L, L)
                ELSE IF d.name \notin DOMAIN OptionTable(kind) THEN Reject(cs, "unknown-option", L, L)
                ELSE IF OptionTable(kind)[d.name] # r.vt THEN Reject(cs, "option-type", L, L)
                ELSE IF d.name = "c.struct_packing_alignment" /\ ~(r.v >= 0 /\ r.v <= 8)
                     THEN Reject(cs, "option-value", L, L)
                ELSE IF d.name = "max_bytes" /\ r.v < 0 THEN Reject(cs, "option-value", L, L)
                ELSE With(IF d.v.e = "ref" THEN NoteRefs(cs, L, << d.v.path >>) ELSE cs, LAMBDA c1 :
                     With(PushMember(c1, d.name, [k |-> "option", v |-> r.v, vt |-> r.vt,
                                                  file |-> FileName(cs), line |-> L]), LAMBDA c2 :
                        Advance(IF d.name = "max_bytes"
                                THEN [c2 EXCEPT !.scopes = SetLast(@, [Cur(c2) EXCEPT !.maxbytes = r.v])]
                                ELSE c2))))
      [] d.d = "const" ->
            With(EvalValue(cs, d.v, TRUE), LAMBDA r :
                IF ~r.ok THEN Reject(cs, r.why, L, L)
                ELSE IF HasMember(Cur(cs).members, d.name) THEN Reject(cs, "duplicate-name", L, L)
                ELSE IF kind # "proto" THEN Reject(cs, "forbidden-in-scope", L, L)
                ELSE With(NoteRefs(cs, L, IF d.v.e = "ref" THEN << d.v.path >>
                                          ELSE IF d.v.e = "calc"
                                               THEN [x \in 1..Len(CalcRefs(d.v.toks)) |-> CalcRefs(d.v.toks)[x][2]]
                                               ELSE <<>>), LAMBDA c1 :
                     With(PushMember(c1, d.name, [k |-> "const", vt |-> r.vt, v |-> r.v, name |-> d.name,
                                                  file |-> FileName(cs), line |-> L]), LAMBDA c2 :
                        Advance(c2))))
      [] d.d = "alias" ->
            With(ResolveType(cs, d.t), LAMBDA r :
                IF ~r.ok THEN Reject(cs, r.why, L, L)
                ELSE IF r.named THEN Reject(cs, "alias-of-named-type", L, L)
                ELSE IF HasMember(Cur(cs).members, d.name) THEN Reject(cs, "duplicate-name", L, L)
                ELSE IF kind # "proto" THEN Reject(cs, "forbidden-in-scope", L, L)
                ELSE With(NoteRefs(cs, L, TypeRefPaths(d.t)), LAMBDA c1 :
                     With(PushMember(c1, d.name, [k |-> "alias", name |-> d.name, t |-> r.t,
                                                  file |-> FileName(cs), line |-> L]), LAMBDA c2 :
                        Advance(c2))))
      [] d.d = "openMsg" ->
            IF d.ext /\ cs.trad THEN Reject(cs, "extensible-in-traditional", L, L)
            ELSE Advance([cs EXCEPT !.scopes = Append(@, [kind |-> "msg", name |-> d.name, ext |-> d.ext, n |-> 0,
                                                          line |-> L, members |-> <<>>, maxbytes |-> 0])])
      [] d.d = "field" ->
            With(ResolveType(cs, d.t), LAMBDA r :
                IF ~r.ok THEN Reject(cs, r.why, L, L)
                ELSE IF kind = "proto" THEN Reject(cs, "grammar", L, L)
                ELSE IF ~(d.num >= 1 /\ d.num <= 255) THEN Reject(cs, "invalid-field-number", L, L)
                ELSE IF HasMember(Cur(cs).members, d.name) THEN Reject(cs, "duplicate-name", L, L)
                ELSE IF kind = "enum" THEN Reject(cs, "forbidden-in-scope", L, L)
                ELSE IF \E x \in 1..Len(Cur(cs).members) :
                            Cur(cs).members[x].def.k = "field" /\ Cur(cs).members[x].def.num = d.num
                     THEN Reject(cs, "duplicate-field-number", L, L)
                ELSE With(NoteRefs(cs, L, TypeRefPaths(d.t)), LAMBDA c1 :
                     With(PushMember(c1, d.name, [k |-> "field", num |-> d.num, t |-> r.t,
                                                  file |-> FileName(cs), line |-> L]), LAMBDA c2 :
                        Advance(c2))))
      [] d.d \in {"closeMsg", "closeEnum"} /\ kind = "msg" ->     \* a '}' closes whatever scope is open
            With(Cur(cs), LAMBDA sc :
                 With(FieldTypes(sc.members), LAMBDA fts :
                 With([k |-> "msg", name |-> sc.name, ext |-> sc.ext, fields |-> fts], LAMBDA ty :
                 With(NBits(ty), LAMBDA nb :
                    IF nb > 65535 THEN Reject(cs, "message-size", sc.line, L)
                    ELSE IF sc.maxbytes > 0 /\ (nb + 7) \div 8 > sc.maxbytes
                         THEN Reject(cs, "message-max-bytes", sc.line, L)
                    ELSE With([cs EXCEPT !.scopes = Front(@)], LAMBDA c1 :
                        IF HasMember(Cur(c1).members, sc.name) THEN Reject(c1, "duplicate-name", sc.line, L)
                        ELSE IF Cur(c1).kind = "enum" THEN Reject(c1, "forbidden-in-scope", sc.line, L)
                        ELSE Advance(PushMember(c1, sc.name,
                                [k |-> "msg", name |-> sc.name, ext |-> sc.ext, fields |-> fts,
                                 members |-> sc.members, nbits |-> nb,
                                 file |-> FileName(cs), line |-> sc.line, eline |-> L])))))))
      [] d.d = "openEnum" ->
            IF ~WidthOK(d.n) THEN Reject(cs, "invalid-width", L, L)
            ELSE Advance([cs EXCEPT !.scopes = Append(@, [kind |-> "enum", name |-> d.name, ext |-> FALSE, n |-> d.n,
                                                          line |-> L, members |-> <<>>, maxbytes |-> 0])])
      [] d.d = "efield" ->
            IF kind # "enum" THEN Reject(cs, "grammar", L, L)
            ELSE IF HasMember(Cur(cs).members, d.name) THEN Reject(cs, "duplicate-name", L, L)
            ELSE IF ~FitsWidth(d.bits, Cur(cs).n) THEN Reject(cs, "enum-value-overflow", L, L)
            ELSE IF \E x \in 1..Len(Cur(cs).members) :
                        Cur(cs).members[x].def.k = "efield" /\ Cur(cs).members[x].def.bits = d.bits
                 THEN Reject(cs, "duplicate-enum-value", L, L)
            ELSE Advance(PushMember(cs, d.name, [k |-> "efield", bits |-> d.bits,
                                                 file |-> FileName(cs), line |-> L]))
      [] d.d \in {"closeMsg", "closeEnum"} /\ kind = "enum" ->
            With(Cur(cs), LAMBDA sc :
                 With([cs EXCEPT !.scopes = Front(@)], LAMBDA c1 :
                    IF HasMember(Cur(c1).members, sc.name) THEN Reject(c1, "duplicate-name", sc.line, L)
                    ELSE IF Cur(c1).kind = "enum" THEN Reject(c1, "forbidden-in-scope", sc.line, L)
                    ELSE Advance(PushMember(c1, sc.name,
                            [k |-> "enum", name |-> sc.name, n |-> sc.n, members |-> sc.members,
                             file |-> FileName(cs), line |-> sc.line, eline |-> L]))))
      [] OTHER -> Reject(cs, "grammar", L, L)

(* end of a file: p_close_global_scope, and the tail of p_import in the    *)
(* importing parser                                                        *)
EndOfFile(cs) ==
    LET fr == Fr(cs) IN
    IF ~AtFileScope(cs) THEN Reject(cs, "grammar", 0, 0)
    ELSE IF fr.pname = "" THEN Reject(cs, "proto-name-undefined", 0, 0)
    ELSE With([k |-> "proto", name |-> fr.pname, file |-> FileName(cs), line |-> 1,
               members |-> Cur(cs).members], LAMBDA pd :
        IF Len(cs.frames) = 1
        THEN [cs EXCEPT !.status = "accepted", !.result = pd]
        ELSE With([cs EXCEPT !.frames = Front(@), !.scopes = Front(@)], LAMBDA c1 :
             With(IF fr.asname # "" THEN fr.asname ELSE fr.pname, LAMBDA nm :
                IF HasMember(Cur(c1).members, nm) THEN Reject(c1, "duplicate-name", fr.impline, fr.impline)
                ELSE Advance(PushMember(
                        [c1 EXCEPT !.frames = SetLast(@, [Fr(c1) EXCEPT !.imports = Append(@, fr.file)])],
                        nm, pd)))))

(* THE step function *)
CStep(cs) ==
    IF cs.status # "run" THEN cs
    ELSE IF Fr(cs).pos > Len(Decls(cs)) THEN EndOfFile(cs)
    ELSE ApplyDecl(cs, Decls(cs)[Fr(cs).pos])

RECURSIVE CRun(_)
CRun(cs) == IF cs.status # "run" THEN cs ELSE With(CStep(cs), LAMBDA c2 : CRun(c2))

(* number of steps any behaviour can take: one per declaration of every    *)
(* file instance parsed plus one per end of file (C09: termination)        *)
TotalDecls(files) == SumSeq([x \in 1..Len(files) |-> Len(files[x].decls) + 1])
=============================================================================
