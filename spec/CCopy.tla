------------------------------- MODULE CCopy -------------------------------
(***************************************************************************)
(* BpCopyBufferBits of lib/c/bitproto.c:247-341, one step per loop         *)
(* iteration, split by the branch the C code takes.                        *)
(*                                                                         *)
(* Memory is modelled at bit granularity as sequences of CELLS.  A cell is *)
(* 0 (a zero bit / empty), 1 (a one bit) or any other integer used as a    *)
(* provenance TAG: running the machine on tags decides the copy for all    *)
(* inputs at once, running it on 0/1 gives the exact expected memory for   *)
(* a recorded call (trace validation).                                     *)
(*                                                                         *)
(* State record s: n (bits left), di, si (bit offsets, < 8 after           *)
(* normalisation), dp, sp (byte pointers, 0-based), dst, src (cells),      *)
(* wfoot / rfoot (sets of destination bytes written / source bytes read),  *)
(* br (branch taken by the last step).                                     *)
(***************************************************************************)
EXTENDS Types

Conflict == -999
OrCell(a, b) == IF a = 0 THEN b ELSE IF b = 0 THEN a ELSE IF a = b THEN a ELSE Conflict

(* cell at bit position p (0-based) of a cell sequence, 0 outside: reading *)
(* outside is recorded in rfoot and judged by the footprint invariant      *)
Cell(m, p) == IF p >= 0 /\ p < Len(m) THEN m[p + 1] ELSE 0

CCInit(n, di, si, src, dst) ==
    [n |-> n, di |-> di, si |-> si, dp |-> 0, sp |-> 0, dst |-> dst, src |-> src,
     wfoot |-> {}, rfoot |-> {}, br |-> "start"]

(* which branch does the C code take (after pointer/offset normalisation)? *)
Branch(s, BE) ==
    LET di == s.di % 8
        si == s.si % 8
        bits == s.n + si
    IN  IF di = 0
        THEN IF ~BE /\ bits >= 32 THEN "Word32"
             ELSE IF ~BE /\ bits >= 16 THEN "Word16"
             ELSE IF bits >= 8 THEN "Byte8"
             ELSE "PartialAligned"
        ELSE "PartialUnaligned"

(* assignment of a W-bit word: dst word := src word >> si  (vacated high bits are zero) *)
AssignWord(dst, src, dbit, sbit, si, W) ==
    With(dst, LAMBDA d : With(src, LAMBDA m :
        [p \in 1..Len(d) |->
            IF p - 1 >= dbit /\ p - 1 < dbit + W
            THEN LET b == p - 1 - dbit IN IF b + si < W THEN Cell(m, sbit + b + si) ELSE 0
            ELSE d[p]]))

(* dst byte |= bits [si, si+c) of the src byte, placed at [di, di+c) *)
OrBits(dst, src, dbit, sbit, di, si, c) ==
    With(dst, LAMBDA d : With(src, LAMBDA m :
        [p \in 1..Len(d) |->
            IF p - 1 >= dbit + di /\ p - 1 < dbit + di + c
            THEN OrCell(d[p], Cell(m, sbit + si + (p - 1 - dbit - di)))
            ELSE d[p]]))

CCStep(s, BE) ==
    LET dp == s.dp + (s.di \div 8)
        sp == s.sp + (s.si \div 8)
        di == s.di % 8
        si == s.si % 8
        br == Branch(s, BE)
        c == CASE br = "Word32" -> 32 - si
               [] br = "Word16" -> 16 - si
               [] br = "Byte8" -> 8 - si
               [] br = "PartialAligned" -> Min2(8 - si, s.n)
               [] OTHER -> Min3(8 - di, 8 - si, s.n)
        W == CASE br = "Word32" -> 32 [] br = "Word16" -> 16 [] OTHER -> 8
        newdst == IF br \in {"Word32", "Word16", "Byte8"}
                  THEN AssignWord(s.dst, s.src, 8 * dp, 8 * sp, si, W)
                  ELSE OrBits(s.dst, s.src, 8 * dp, 8 * sp, di, si, c)
    IN  [n |-> s.n - c, di |-> di + c, si |-> si + c, dp |-> dp, sp |-> sp,
         dst |-> newdst, src |-> s.src,
         wfoot |-> s.wfoot \cup {dp + k : k \in 0..((W \div 8) - 1)},
         rfoot |-> s.rfoot \cup {sp + k : k \in 0..((W \div 8) - 1)},
         br |-> br]

RECURSIVE CCRun(_, _)
CCRun(s, BE) == IF s.n <= 0 THEN s ELSE With(CCStep(s, BE), LAMBDA s2 : CCRun(s2, BE))

(* --- the documentation-shaped statement: a plain bit copy --- *)
BitCopy(dst, src, n, di, si) ==
    With(dst, LAMBDA d : With(src, LAMBDA m :
        [p \in 1..Len(d) |-> IF p - 1 >= di /\ p - 1 < di + n THEN Cell(m, si + (p - 1 - di)) ELSE d[p]]))

(* --- BpEndecodeBaseType on a big-endian host: staging through le[8] --- *)
StorageBytes(nbits) == IF nbits <= 8 THEN 1 ELSE IF nbits <= 16 THEN 2 ELSE IF nbits <= 32 THEN 4 ELSE 8
(* bit q (0-based, LSB first) of the integer whose big-endian storage image is mem (cells) *)
BEBit(mem, size, q) == Cell(mem, 8 * (size - 1 - (q \div 8)) + (q % 8))
StageIn(mem, nbits) ==      \* native big-endian bytes -> little-endian staging buffer (64 cells)
    With(mem, LAMBDA m : [p \in 1..64 |-> IF p - 1 < 8 * StorageBytes(nbits) THEN BEBit(m, StorageBytes(nbits), p - 1) ELSE 0])
StageOut(le, nbits) ==      \* staging buffer -> native big-endian bytes
    With(le, LAMBDA l : [p \in 1..(8 * StorageBytes(nbits)) |->
        LET k == (p - 1) \div 8 IN Cell(l, 8 * (StorageBytes(nbits) - 1 - k) + ((p - 1) % 8))])
=============================================================================
