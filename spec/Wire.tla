-------------------------------- MODULE Wire --------------------------------
(***************************************************************************)
(* The documented wire format as total functions (documentation-shaped).   *)
(*   Enc(t, v)      : the bit stream of value v of type t                  *)
(*   Bytes(bits)    : stream bit k lives in byte k div 8 at position k%8   *)
(*   Dec(t, w, i)   : decoding type t from bit stream w at cursor i with   *)
(*                    the cursor semantics of extensible messages/arrays   *)
(*   JsonOf(t, v)   : the JSON tree a message states                       *)
(*   Storage(t, v)  : C memory image of a leaf (sign extended)             *)
(***************************************************************************)
EXTENDS Types, FiniteSetsExt

RECURSIVE Enc(_, _)
Enc(t, v) ==
    CASE IsLeaf(t) -> v
      [] t.k = "alias" -> Enc(t.to, v)
      [] t.k = "array" ->
            With(NBits(t.elem), LAMBDA E :
            With([e \in 1..t.cap |-> Enc(t.elem, v[e])], LAMBDA parts :
                (IF t.ext THEN Bits16(t.cap) ELSE <<>>)
                \o [p \in 1..(t.cap * E) |-> parts[((p - 1) \div E) + 1][((p - 1) % E) + 1]]))
      [] t.k = "msg" ->
            LET ord == Order(t.fields)
                body == FoldLeft(LAMBDA acc, x : acc \o Enc(t.fields[x].t, v[x]), <<>>, ord)
            IN  (IF t.ext THEN Bits16(NBits(t)) ELSE <<>>) \o body

(* byte b (1-based) of a bit stream, as a number 0..255; zero padded *)
ByteAt(bits, b) ==    \* bits, b: concrete values (callers bind them)
    LET base == 8 * (b - 1)
        bitAt(p) == IF base + p <= Len(bits) THEN bits[base + p] ELSE 0
    IN  bitAt(1) + 2 * bitAt(2) + 4 * bitAt(3) + 8 * bitAt(4) + 16 * bitAt(5)
        + 32 * bitAt(6) + 64 * bitAt(7) + 128 * bitAt(8)

Bytes(bits) == With(bits, LAMBDA bs : [b \in 1..((Len(bs) + 7) \div 8) |-> ByteAt(bs, b)])

(* the bit stream of a byte sequence *)
BitsOf(bytes) == With(bytes, LAMBDA by :
                    [p \in 1..(8 * Len(by)) |->
                        (by[((p - 1) \div 8) + 1] \div Pow2((p - 1) % 8)) % 2])

(* Reading outside the stream yields the marker 2: never equal to a bit.   *)
Rd(w, p) == IF p + 1 <= Len(w) /\ p >= 0 THEN w[p + 1] ELSE 2

Num16(w, i) ==     \* w, i concrete
    FoldLeft(LAMBDA acc, b : IF Rd(w, i + b) = 2 THEN acc ELSE acc + Rd(w, i + b) * Pow2(b),
             0, [b \in 1..16 |-> b - 1])

(* Decoding.  Result: [v |-> value, i |-> cursor after].                   *)
(* An extensible message continues at start + ahead, an extensible array   *)
(* at start + 16 + ahead * E where E is the number of stream bits one      *)
(* element occupied -- in both cases only if that is not behind the cursor.*)
(* DecR works on CONCRETE t, w, i (every recursive call binds them).        *)
RECURSIVE DecR(_, _, _)
DecC(t, w, i) == With(t, LAMBDA tt : With(i, LAMBDA ii : DecR(tt, w, ii)))
DecR(t, w, i) ==
    CASE IsLeaf(t) ->
            [v |-> Eager([b \in 1..LeafBits(t) |-> Rd(w, i + b - 1)]), i |-> i + LeafBits(t)]
      [] t.k = "alias" -> DecC(t.to, w, i)
      [] t.k = "array" ->
            With(IF t.ext THEN Num16(w, i) ELSE 0, LAMBDA ahead :
            With(i + (IF t.ext THEN 16 ELSE 0), LAMBDA i1 :
            With(IF Fixed(t.elem)
                 THEN With(NBits(t.elem), LAMBDA E :
                        [v |-> Eager([e \in 1..t.cap |-> DecC(t.elem, w, i1 + (e - 1) * E).v]),
                         i |-> i1 + t.cap * E])
                 ELSE FoldLeft(LAMBDA acc, e :
                                  With(DecC(t.elem, w, acc.i), LAMBDA d :
                                       [v |-> Append(acc.v, d.v), i |-> d.i]),
                               [v |-> <<>>, i |-> i1], [e \in 1..t.cap |-> e]),
                 LAMBDA r :
                    \* saturating: a hostile "ahead" times a large element must not overflow TLC's integers
                    With(SatAdd(i + 16, SatMul(ahead, (r.i - i1) \div t.cap)), LAMBDA ito :
                        [v |-> r.v, i |-> IF t.ext /\ ito >= r.i THEN ito ELSE r.i]))))
      [] t.k = "msg" ->
            With(IF t.ext THEN Num16(w, i) ELSE 0, LAMBDA ahead :
            With(FoldLeft(LAMBDA acc, x :
                             With(DecC(t.fields[x].t, w, acc.i), LAMBDA d :
                                  [v |-> [acc.v EXCEPT ![x] = d.v], i |-> d.i]),
                          [v |-> Eager([x \in 1..Len(t.fields) |-> <<>>]),
                           i |-> i + (IF t.ext THEN 16 ELSE 0)],
                          Order(t.fields)),
                 LAMBDA r :
                    [v |-> r.v, i |-> IF t.ext /\ i + ahead >= r.i THEN i + ahead ELSE r.i]))

Dec(t, w, i) == With(w, LAMBDA ww : DecC(t, ww, i))

(* Restriction of a value of an evolved type tN to what exists in tO       *)
(* (tN obtained from tO by appending fields / growing arrays).             *)
RECURSIVE RestrictV(_, _, _)
RestrictV(tO, tN, v) ==
    CASE IsLeaf(tO) -> v
      [] tO.k = "alias" -> RestrictV(tO.to, tN.to, v)
      [] tO.k = "array" -> Eager([e \in 1..tO.cap |-> RestrictV(tO.elem, tN.elem, v[e])])
      [] tO.k = "msg" ->
            Eager([x \in 1..Len(tO.fields) |->
                LET y == CHOOSE y \in 1..Len(tN.fields) : tN.fields[y].num = tO.fields[x].num
                IN  RestrictV(tO.fields[x].t, tN.fields[y].t, v[y])])

(* --- the three pure helpers of the runtimes (bp.py:452-487; getMask / getNbitsToCopy /  *)
(* smartShift in bitproto.go; BpMinTriple and the mask expressions in bitproto.c) -- defined *)
(* once, used by Codec, by the optimization-mode plan and by C19                          *)
NCopy(i, j, n) == Min3(n - j, 8 - (j % 8), 8 - (i % 8))
Mask(k, c) == IF k = 0 THEN Pow2(c) - 1 ELSE Pow2(k + c) - Pow2(k)
SmartShift(b, k) == IF k > 0 THEN b \div Pow2(k) ELSE IF k < 0 THEN b * Pow2(0 - k) ELSE b

(* ---- JSON ---- *)
(* neutral JSON tree: [j |-> "o", kv |-> << <<key, tree>>, ... >>],        *)
(* [j |-> "l", xs |-> <<tree...>>], [j |-> "b", b |-> BOOLEAN],            *)
(* [j |-> "n", neg |-> BOOLEAN, mag |-> bits LSB first w/o leading zeros]  *)
TrimZeros(bs) ==
    With(bs, LAMBDA x :
        With({p \in 1..Len(x) : x[p] = 1}, LAMBDA S :
            IF S = {} THEN <<>> ELSE SubSeq(x, 1, Max(S))))

(* two's complement negation of a bit vector (same width): bits up to and  *)
(* including the lowest set bit stay, the bits above it are inverted        *)
Negate(bs) ==
    With(bs, LAMBDA x :
        [b \in 1..Len(x) |-> IF \A q \in 1..(b - 1) : x[q] = 0 THEN x[b] ELSE 1 - x[b]])

JsonNum(bs, signed) ==
    With(bs, LAMBDA x :
        IF signed /\ x[Len(x)] = 1
        THEN [j |-> "n", neg |-> TRUE, mag |-> TrimZeros(Negate(x))]
        ELSE [j |-> "n", neg |-> FALSE, mag |-> TrimZeros(x)])

RECURSIVE JsonOf(_, _)
JsonOf(t, v) ==
    CASE t.k = "bool" -> [j |-> "b", b |-> (v[1] = 1)]
      [] t.k \in {"byte", "uint", "enum"} -> JsonNum(v, FALSE)
      [] t.k = "int" -> JsonNum(v, TRUE)
      [] t.k = "alias" -> JsonOf(t.to, v)
      [] t.k = "array" -> [j |-> "l", xs |-> Eager([e \in 1..t.cap |-> JsonOf(t.elem, v[e])])]
      [] t.k = "msg" ->
            With(Order(t.fields), LAMBDA ord :
                [j |-> "o", kv |-> Eager([p \in 1..Len(ord) |->
                    <<t.fields[ord[p]].name, JsonOf(t.fields[ord[p]].t, v[ord[p]])>>])])

(* ---- C storage ---- *)
(* memory image of a leaf in its C storage, little-endian bit order,       *)
(* sign extended to the storage width for signed leaves                    *)
LeafStorage(t, v) ==
    With(LeafBits(t), LAMBDA n :
    With(IF t.k = "bool" THEN 8 ELSE StorageBits(n), LAMBDA W :
    With(v, LAMBDA x :
        [b \in 1..W |-> IF b <= n THEN x[b] ELSE IF t.k = "int" THEN x[n] ELSE 0])))

(* low n bits of a storage image (what an encoder may look at) *)
Trunc(t, img) == With(img, LAMBDA x : [b \in 1..LeafBits(t) |-> x[b]])
=============================================================================
