SPECIFICATION Spec
INVARIANT EncodeSameWire
INVARIANT DecodeSameValue
INVARIANT RoundTrip
CHECK_DEADLOCK FALSE
