------------------------------- MODULE Codec -------------------------------
(***************************************************************************)
(* The cursor machine shared by the three runtimes                         *)
(* (lib/py/bitprotolib/bp.py:205-545, lib/c/bitproto.c:67-238,343-374,     *)
(* 428-473, lib/go/bitproto.go:146-435).                                   *)
(*                                                                         *)
(* A processor tree is compiled to a static instruction list Ops(t); the   *)
(* machine walks it with a context (mode, i, buf) exactly as process()     *)
(* recursion does: base types are copied in chunks of                      *)
(* c = min(n-j, 8-j%8, 8-i%8) bits through a shift and a mask; extensible  *)
(* messages/arrays write/read a 16 bit "ahead" through the same copier and *)
(* jump the cursor after their own fields when decoding.                   *)
(***************************************************************************)
EXTENDS Wire, Bitwise, TLC

(* NCopy, Mask and SmartShift -- the three pure helpers of the runtimes -- are defined in Wire.tla *)

(* byte number q (0-based) of a leaf source of W raw bits *)
SrcByte(raw, q) ==
    LET bitAt(p) == IF 8 * q + p <= Len(raw) THEN raw[8 * q + p] ELSE 0
    IN  bitAt(1) + 2 * bitAt(2) + 4 * bitAt(3) + 8 * bitAt(4) + 16 * bitAt(5)
        + 32 * bitAt(6) + 64 * bitAt(7) + 128 * bitAt(8)

(* --- static instruction list --- *)
RECURSIVE Ops(_, _, _)
Ops(t, path, ln) ==
    CASE IsLeaf(t) ->
            << [op |-> "Leaf", n |-> LeafBits(t), signed |-> (t.k = "int"),
                path |-> path, ln |-> ln + 1] >>
      [] t.k = "alias" -> Ops(t.to, path, ln)
      [] t.k = "array" ->
            LET L == NLeaves(t.elem)
            IN  << [op |-> "AEnter", ext |-> t.ext, cap |-> t.cap] >>
                \o (IF t.ext THEN << [op |-> "Ahead", val |-> t.cap] >> ELSE <<>>)
                \o FoldLeft(LAMBDA acc, e :
                              acc \o Ops(t.elem, Append(path, e - 1), ln + (e - 1) * L),
                            <<>>, [e \in 1..t.cap |-> e])
                \o << [op |-> "ALeave", ext |-> t.ext, cap |-> t.cap, ebits |-> NBits(t.elem)] >>
      [] t.k = "msg" ->
            LET ord == Order(t.fields)
                \* leaves before the p-th field in wire order
                before(p) == SumSeq([q \in 1..(p - 1) |-> NLeaves(t.fields[ord[q]].t)])
            IN  << [op |-> "MEnter", ext |-> t.ext] >>
                \o (IF t.ext THEN << [op |-> "Ahead", val |-> NBits(t)] >> ELSE <<>>)
                \o FoldLeft(LAMBDA acc, p :
                              acc \o Ops(t.fields[ord[p]].t,
                                         Append(path, t.fields[ord[p]].num), ln + before(p)),
                            <<>>, [p \in 1..Len(ord) |-> p])
                \o << [op |-> "MLeave", ext |-> t.ext] >>

(* leaves of a value in processing order *)
RECURSIVE Leaves(_, _)
Leaves(t, v) ==
    CASE IsLeaf(t) -> << v >>
      [] t.k = "alias" -> Leaves(t.to, v)
      [] t.k = "array" ->
            FoldLeft(LAMBDA acc, e : acc \o Leaves(t.elem, v[e]), <<>>, [e \in 1..t.cap |-> e])
      [] t.k = "msg" ->
            FoldLeft(LAMBDA acc, x : acc \o Leaves(t.fields[x].t, v[x]), <<>>, Order(t.fields))

(* Array skip distance.  "observed" is the specified one (16 + ahead * the  *)
(* stream bits one element occupied).  Two NAMED DEVIATIONS are kept as     *)
(* negative controls that TLC must refute:                                  *)
(*  "impl-old": i + ahead*cap, what bp.py:316, bitproto.c:233 and           *)
(*              bitproto.go:350 computed on the pinned tree (defect D5);    *)
(*  "static"  : 16 + ahead * the receiver's own declared element size,      *)
(*              wrong as soon as the element itself was extended.           *)
CONSTANT SkipVariant

VARIABLES
    mode,    \* "enc" | "dec"
    ops,     \* instruction list of the receiver/sender type
    src,     \* enc: leaf sources (raw bit vectors, >= n bits each)
    pc, i, j,
    buf,     \* wire bytes (enc: being written, dec: being read)
    cur,     \* dec: bits of the leaf / ahead being assembled (as number for ahead)
    marks,   \* stack of [start, ahead, i1] for open messages/arrays
    out,     \* dec: decoded leaves in processing order
    st       \* "run" | "done" | "fault"

cvars == <<mode, ops, src, pc, i, j, buf, cur, marks, out, st>>

Start(m, t, sources, wire) ==
    /\ mode = m
    /\ ops = Ops(t, <<>>, 0)
    /\ src = sources
    /\ pc = 1 /\ i = 0 /\ j = 0
    /\ buf = IF m = "enc" THEN [b \in 1..NBytes(t) |-> 0] ELSE wire
    /\ cur = <<>>
    /\ marks = <<>>
    /\ out = <<>>
    /\ st = "run"

Op == ops[pc]
Running == st = "run" /\ pc <= Len(ops)

Enter ==
    /\ Running /\ Op.op \in {"MEnter", "AEnter"}
    /\ marks' = Append(marks, [start |-> i, ahead |-> 0, i1 |-> i])
    /\ pc' = pc + 1
    /\ UNCHANGED <<mode, ops, src, i, j, buf, cur, out, st>>

(* width and source bits of what the copier is working on *)
CurN == IF Op.op = "Ahead" THEN 16 ELSE Op.n
CurSrc == IF Op.op = "Ahead" THEN Bits16(Op.val) ELSE src[Op.ln]

ByteIdx == (i \div 8) + 1

(* one iteration of process_base_type (bp.py:536-545) *)
CopyChunk ==
    /\ Running /\ Op.op \in {"Leaf", "Ahead"} /\ j < CurN
    /\ LET c == NCopy(i, j, CurN)
       IN
       /\ IF ByteIdx > Len(buf)
          THEN /\ st' = "fault"         \* IndexError / out-of-bounds access
               /\ UNCHANGED <<buf, cur, i, j>>
          ELSE
          /\ st' = st
          /\ IF mode = "enc"
             THEN LET b == SrcByte(CurSrc, j \div 8)
                      shift == (j % 8) - (i % 8)
                      d == SmartShift(b, shift) & Mask(i % 8, c)
                  IN  /\ buf' = [buf EXCEPT ![ByteIdx] = @ | d]
                      /\ cur' = cur
             ELSE LET b == buf[ByteIdx]
                      shift == (i % 8) - (j % 8)
                      d == SmartShift(b, shift) & Mask(j % 8, c)
                      lshift == (j \div 8) * 8
                      old == IF j = 0 THEN Zeros(CurN + 8) ELSE cur
                  IN  /\ cur' = [p \in 1..Len(old) |->
                                    IF p > lshift /\ p <= lshift + 8
                                    THEN Max2(old[p], (d \div Pow2(p - lshift - 1)) % 2)
                                    ELSE old[p]]
                      /\ buf' = buf
          /\ i' = i + c
          /\ j' = j + c
    /\ UNCHANGED <<mode, ops, src, pc, marks, out>>

(* return of process_base_type for a leaf; decode of a signed leaf goes    *)
(* through bp_process_int / BpHandleIntSignAfterEndecode: the value keeps  *)
(* its n-bit two's complement pattern, the sign is bit n-1                 *)
LeafDone ==
    /\ Running /\ Op.op = "Leaf" /\ j = Op.n
    /\ out' = IF mode = "dec" THEN Append(out, SubSeq(cur, 1, Op.n)) ELSE out
    /\ cur' = <<>>
    /\ j' = 0 /\ pc' = pc + 1
    /\ UNCHANGED <<mode, ops, src, i, buf, marks, st>>

AheadDone ==
    /\ Running /\ Op.op = "Ahead" /\ j = 16
    /\ marks' = [marks EXCEPT ![Len(marks)] =
                    [@ EXCEPT !.ahead = IF mode = "dec" THEN BitsNum(SubSeq(cur, 1, 16)) ELSE 0,
                              !.i1 = i]]
    /\ cur' = <<>>
    /\ j' = 0 /\ pc' = pc + 1
    /\ UNCHANGED <<mode, ops, src, i, buf, out, st>>

Top == marks[Len(marks)]
Pop == SubSeq(marks, 1, Len(marks) - 1)

LeaveMessage ==
    /\ Running /\ Op.op = "MLeave"
    /\ LET ito == Top.start + Top.ahead
       IN  i' = IF Op.ext /\ mode = "dec" /\ ito >= i THEN ito ELSE i
    /\ marks' = Pop
    /\ pc' = pc + 1
    /\ UNCHANGED <<mode, ops, src, j, buf, cur, out, st>>

LeaveArray ==
    /\ Running /\ Op.op = "ALeave"
    /\ LET eobs == (i - Top.i1) \div Op.cap
           ito == CASE SkipVariant = "impl-old" -> Top.start + Top.ahead * Op.cap
                    [] SkipVariant = "static" -> Top.start + 16 + Top.ahead * Op.ebits
                    [] OTHER -> Top.start + 16 + Top.ahead * eobs
       IN  i' = IF Op.ext /\ mode = "dec" /\ ito >= i THEN ito ELSE i
    /\ marks' = Pop
    /\ pc' = pc + 1
    /\ UNCHANGED <<mode, ops, src, j, buf, cur, out, st>>

Finish ==
    /\ st = "run" /\ pc = Len(ops) + 1
    /\ st' = "done"
    /\ UNCHANGED <<mode, ops, src, pc, i, j, buf, cur, marks, out>>

CodecNext == Enter \/ CopyChunk \/ LeafDone \/ AheadDone \/ LeaveMessage \/ LeaveArray \/ Finish
=============================================================================
