--------------------------- MODULE CompilerTrace ---------------------------
(***************************************************************************)
(* Trace validation for the compiler front end (C08 C09 C11 C13 C20 and    *)
(* the resolution step of every other check).  A trace is an abstract      *)
(* program plus what the real compiler was observed to do with its text.   *)
(* The Compiler machine is stepped over the program's declarations (one    *)
(* TLC state per grammar action); then each observation is decided.        *)
(***************************************************************************)
EXTENDS Compiler, TextPos, Cli, Naming, Json, IOUtils

Batch == JsonDeserialize(IOEnv.TRACE_FILE)
Traces == Batch.traces

VARIABLES tid, tr, cs, l, why, steps, amb
tvars == <<tid, tr, cs, l, why, steps, amb>>

Init ==
    \E T \in {Traces} : \E k \in 1..Len(T) :
        /\ tid = k /\ tr = T[k] /\ l = 1 /\ why = "" /\ steps = 0 /\ amb = FALSE
        /\ cs = CInit(T[k].files, T[k].main, T[k].trad)

(* ---- phase 1: run the machine, one declaration per step ---- *)
Compile ==
    /\ cs.status = "run"
    /\ cs' = CStep(cs)
    /\ steps' = steps + 1
    /\ amb' = (amb \/ NextDeclAmbiguous(cs))
    /\ UNCHANGED <<tid, tr, l, why>>

(* ---- phase 2: decide the observations ---- *)
FindDef(path) == IF cs.status = "accepted" THEN GetMember(cs.result.members, path) ELSE None

(* definitions of file f: the accepted main proto, or an imported proto    *)
(* reachable from it (first one found; every instance of a file is equal)  *)
RECURSIVE FindProto(_, _)
FindProto(pd, f) ==
    IF pd.file = f THEN pd
    ELSE LET subs == SelectSeq(pd.members, LAMBDA m : m.def.k = "proto")
             hits == SelectSeq([x \in 1..Len(subs) |-> FindProto(subs[x].def, f)], LAMBDA r : r.k # "none")
         IN  IF hits = <<>> THEN None ELSE hits[1]

DefIn(f, path) ==
    IF cs.status # "accepted" THEN None
    ELSE With(FindProto(cs.result, f), LAMBDA pd : IF pd.k = "none" THEN None ELSE GetMember(pd.members, path))

FieldRows(d) == [x \in 1..Len(d.fields) |-> << d.fields[x].name, d.fields[x].num, NBits(d.fields[x].t) >>]

RefSet == {<< cs.refs[x].file, cs.refs[x].line, cs.refs[x].path, cs.refs[x].dfile, cs.refs[x].dline >> :
             x \in 1..Len(cs.refs)}

(* --- lint expectations, computed from the program's flat declarations --- *)
FileIdx(f) == CHOOSE x \in 1..Len(tr.files) : tr.files[x].name = f
FileLayout(f) == tr.files[FileIdx(f)].layout
WarnClass(k) ==
    CASE k = "alias" -> "AliasNameNotPascal" [] k = "const" -> "ConstantNameNotUpper"
      [] k = "openEnum" -> "EnumNameNotPascal" [] k = "efield" -> "EnumFieldNameNotUpper"
      [] k = "openMsg" -> "MessageNameNotPascal" [] k = "field" -> "MessageFieldNameNotSnake"
      [] OTHER -> "none"
(* does the enum opened at position x of decls have a member with value 0? *)
EnumHasZero(ds, x) ==
    LET RECURSIVE Scan(_)
        Scan(y) == IF y > Len(ds) \/ ds[y].d = "closeEnum" THEN FALSE
                   ELSE IF ds[y].d = "efield" /\ ds[y].bits = <<>> THEN TRUE ELSE Scan(y + 1)
    IN  Scan(x + 1)
WarnsOfFile(fx, style) ==
    LET ds == tr.files[fx].decls
    IN  {<< tr.files[fx].name, WarnClass(ds[x].d), ds[x].line >> :
            x \in {y \in 1..Len(ds) : WarnClass(ds[y].d) # "none" /\ ds[y].style = style}}
NoZeroOfFile(fx, want) ==
    LET ds == tr.files[fx].decls
    IN  {<< tr.files[fx].name, "EnumHasNoFieldValue0", ds[x].line >> :
            x \in {y \in 1..Len(ds) : ds[y].d = "openEnum" /\ EnumHasZero(ds, y) = want}}
(* warnings are printed for the definitions of the MAIN file only (bound to the proto) *)
ExpectedWarnings == WarnsOfFile(tr.main, "bad") \cup NoZeroOfFile(tr.main, FALSE)
ForbiddenWarnings ==
    WarnsOfFile(tr.main, "ok") \cup NoZeroOfFile(tr.main, TRUE)
    \cup (IF tr.files[tr.main].indent_ok
          THEN {<< tr.files[tr.main].name, "IndentWarning", ln >> : ln \in 1..Len(tr.files[tr.main].layout)}
          ELSE {})

(* --- expected generated identifiers (C15), from the flat declarations of a file --- *)
(* walk the declarations keeping the stack of enclosing MESSAGE names *)
ExpectedIds(fx, lang, stdmode) ==
    LET ds == tr.files[fx].decls
        p == tr.files[fx].prefix
        Step(acc, x) ==
            LET d == ds[x]
                e == acc.stack
                n == IF "words" \in DOMAIN d THEN d.words ELSE <<>>
                owner == acc.owner        \* identifier of the innermost open message in this language
            IN
            CASE d.d = "openMsg" ->
                    [stack |-> Append(e, n), inenum |-> FALSE,
                     owner |-> Append(acc.owner, CASE lang = "c" -> CStruct(p, e, n) [] lang = "py" -> PyClass(e, n)
                                                   [] OTHER -> IF e = <<>> THEN GoType(n) ELSE "?"),
                     ids |-> acc.ids \cup
                        (CASE lang = "c" -> {"struct " \o CStruct(p, e, n), CEncode(p, e, n), CDecode(p, e, n), CSize(p, e, n)}
                                            \cup (IF stdmode THEN {CJson(p, e, n)} ELSE {})
                           [] lang = "py" -> {PyClass(e, n)} \cup {PyClass(e, n) \o "." \o m :
                                                 m \in {"encode", "decode", "to_json", "to_dict", "BYTES_LENGTH"}}
                           [] OTHER -> IF e = <<>>
                                       THEN {GoType(n), GoSize(e, n)} \cup {GoType(n) \o "." \o m : m \in {"Encode", "Decode", "Size"}}
                                       ELSE {})]
              [] d.d = "closeMsg" /\ acc.stack # <<>> /\ acc.inenum = FALSE ->
                    [acc EXCEPT !.stack = Front(@), !.owner = Front(@)]
              [] d.d = "field" /\ acc.owner # <<>> ->
                    [acc EXCEPT !.ids = @ \cup
                        (CASE lang = "c" -> {Last(acc.owner) \o "." \o CField(n)}
                           [] lang = "py" -> {Last(acc.owner) \o "." \o PyField(n)}
                           [] OTHER -> IF Last(acc.owner) = "?" THEN {}
                                       ELSE {Last(acc.owner) \o "." \o GoField(n) \o ":" \o GoJsonTag(n)})]
              [] d.d = "openEnum" ->
                    [acc EXCEPT !.inenum = TRUE, !.ids = @ \cup
                        (CASE lang = "c" -> {CType(p, e, n)} [] lang = "py" -> {PyClass(e, n)}
                           [] OTHER -> IF e = <<>> THEN {GoType(n)} ELSE {})]
              [] d.d = "closeEnum" -> [acc EXCEPT !.inenum = FALSE]
              [] d.d = "efield" ->
                    [acc EXCEPT !.ids = @ \cup
                        (CASE lang = "c" -> {CEnumMember(p, e, n)} [] lang = "py" -> {PyEnumMember(e, n)}
                           [] OTHER -> IF e = <<>> THEN {Upper(n)} ELSE {})]
              [] d.d = "alias" ->
                    [acc EXCEPT !.ids = @ \cup
                        (CASE lang = "c" -> {CType(p, <<>>, n)} [] lang = "py" -> {PyClass(<<>>, n)} [] OTHER -> {GoType(n)})]
              [] d.d = "const" ->
                    [acc EXCEPT !.ids = @ \cup
                        (CASE lang = "c" -> {CConst(p, n)} [] lang = "py" -> {PyConst(n)} [] OTHER -> {GoConst(n)})]
              [] OTHER -> acc
    IN  FoldLeft(Step, [stack |-> <<>>, owner |-> <<>>, ids |-> {}, inenum |-> FALSE], [x \in 1..Len(ds) |-> x]).ids

(* Comment attachment.  NAMED DEVIATION of the implementation: the pending comment block is a list *)
(* SHARED with the parser of an imported file (parser.py parse_child passes self.comment_block), and *)
(* an import statement does not collect it -- so comment lines standing immediately above an import *)
(* statement become comments of the FIRST declaration of the imported file, when nothing but comment *)
(* lines precedes that declaration.                                                               *)
ImportSites(fx) ==
    {<< y, z >> \in (1..Len(tr.files)) \X (1..200) :
        z <= Len(tr.files[y].decls) /\ tr.files[y].decls[z].d = "import" /\ tr.files[y].decls[z].file = tr.files[fx].name}
Inherited(fx) ==
    IF fx = tr.main \/ ImportSites(fx) = {} THEN 0
    ELSE LET site == CHOOSE s \in ImportSites(fx) : \A o \in ImportSites(fx) : s[1] < o[1] \/ (s[1] = o[1] /\ s[2] <= o[2])
         IN  CommentsAbove(tr.files[site[1]].kinds, tr.files[site[1]].decls[site[2]].line)
OwnedComments(fx, line) ==
    LET own == CommentsAbove(tr.files[fx].kinds, line)
    IN  IF own = line - 1 THEN own + Inherited(fx) ELSE own

Check(e) ==
    CASE e.ev = "Outcome" ->
            IF cs.status = "rejected" /\ cs.err.kind = "out-of-model" THEN "skip:out-of-model"
            ELSE IF amb /\ e.outcome \in {"accepted", "rejected"} THEN "skip:ambiguous-dotted-path"
            ELSE IF e.outcome = "raise" THEN "raise:" \o e.what
            ELSE IF e.outcome = "hang" THEN "hang"
            ELSE IF cs.status = "accepted"
                 THEN IF e.outcome # "accepted" THEN "rejected-a-valid-schema:" \o e.what
                      ELSE ""
            ELSE IF cs.err.kind = "unreadable-import"
                 THEN IF e.outcome = "oserror" THEN "" ELSE "expected-os-error"
            ELSE \* the spec rejects
                 IF e.outcome = "accepted" THEN "accepted-an-invalid-schema:" \o cs.err.kind
                 ELSE IF e.outcome # "rejected" THEN "not-a-parser-error:" \o e.what
                 ELSE IF e.file # cs.err.file THEN "wrong-file:" \o cs.err.kind
                 ELSE IF cs.err.l1 > 0 /\ ~(e.line >= cs.err.l1 /\ e.line <= cs.err.l2)
                      THEN "wrong-line:" \o cs.err.kind
                 ELSE ""
      [] e.ev = "Diag" ->
            \* what the command line prints for a rejected schema: "error: <file>:L<line> <token> => ..." cites the
            \* file of the offending declaration and a line within it (C20)
            IF cs.status = "rejected" /\ cs.err.kind = "out-of-model" THEN "skip:out-of-model"
            ELSE IF amb THEN "skip:ambiguous-dotted-path"
            ELSE IF cs.status = "accepted" THEN (IF e.nerr > 0 THEN "error-printed-for-a-valid-schema" ELSE "")
            ELSE IF cs.err.kind = "unreadable-import" THEN (IF e.exit = 0 THEN "zero-exit-on-invalid" ELSE "")
            ELSE IF e.exit = 0 THEN "zero-exit-on-invalid"
            ELSE IF e.traceback THEN "traceback"
            ELSE IF ~e.cited THEN "diagnostic-cites-no-file-and-line:" \o cs.err.kind
            ELSE IF e.file # cs.err.file THEN "diagnostic-wrong-file:" \o cs.err.kind
            ELSE IF cs.err.l1 > 0 /\ ~(e.line >= cs.err.l1 /\ e.line <= cs.err.l2)
                 THEN "diagnostic-wrong-line:" \o cs.err.kind
            ELSE ""
      [] e.ev = "Pos" ->
            \* the recorded line, column and indent of a definition's name (C20)
            With(DefIn(e.file, e.path), LAMBDA d :
                IF d.k = "none" THEN "no-such-definition"
                ELSE IF d.line # e.line THEN "definition-line"
                ELSE With(FileLayout(e.file)[d.line], LAMBDA toks :
                        IF WordCol(toks, e.word) # e.col THEN "definition-column"
                        ELSE IF e.indent # -99 /\ Indent(toks, d.line) # e.indent THEN "definition-indent"
                        ELSE ""))
      [] e.ev = "Comments" ->
            \* BEYOND THE LISTED PROPERTIES: which comment lines a definition owns
            With(DefIn(e.file, e.path), LAMBDA d :
                IF d.k = "none" THEN "no-such-definition"
                ELSE IF e.n # OwnedComments(FileIdx(e.file), d.line) THEN "comment-attachment"
                ELSE "")
      [] e.ev = "RefPos" ->
            IF WordCol(FileLayout(e.file)[e.line], e.word) # e.col THEN "reference-column" ELSE ""
      [] e.ev = "Warnings" ->
            \* lint: every clearly violating name and every enum without a zero member is
            \* warned about on its line; nothing conforming is warned about
            With({<< e.list[x][1], e.list[x][2], e.list[x][3] >> : x \in 1..Len(e.list)}, LAMBDA W :
                IF \E x \in ExpectedWarnings : x \notin W THEN "warning-missing"
                ELSE IF \E w \in W : w \in ForbiddenWarnings THEN "warning-on-conforming-definition"
                ELSE "")
      [] e.ev = "CheckOnly" ->
            \* check-only mode exits non-zero exactly when there is an error or a warning
            IF (e.exit # 0) # (e.nerr > 0 \/ e.nwarn > 0) THEN "check-only-exit"
            ELSE IF (e.nerr > 0) # (cs.status = "rejected") /\ cs.err.kind # "out-of-model" /\ ~amb
                 THEN "check-only-error-vs-verdict"
            ELSE IF e.traceback THEN "traceback" ELSE ""
      [] e.ev = "LintNoEffect" ->
            IF e.exit_quiet # e.exit_lint THEN "lint-changes-exit"
            ELSE IF ~e.same_outputs THEN "lint-changes-output" ELSE ""
      [] e.ev = "CliRun" ->
            \* one run of the command line with configuration e.cfg (C17)
            LET cfg == [lang |-> e.cfg.lang, O |-> e.cfg.O,
                        F |-> IF "Ftoks" \in DOMAIN e.cfg THEN FilterNames(e.cfg.Ftoks)
                              ELSE {e.cfg.F[x] : x \in 1..Len(e.cfg.F)},
                        useF |-> e.cfg.useF, check |-> e.cfg.check]
                ds == tr.files[tr.main].decls
                names == {ds[x].name : x \in {y \in 1..Len(ds) : ds[y].d = "openMsg"}}
                o == CliOutcome(cfg, cs.status = "accepted", e.nwarn, names)
            IN  IF tr.trad # TraditionalParse(cfg) THEN "machinery:trad-flag"
                ELSE IF cs.status = "rejected" /\ cs.err.kind = "out-of-model" THEN "skip:out-of-model"
                ELSE IF e.traceback THEN "traceback"
                ELSE IF (e.exit = 0) # (o.exit = 0) THEN "exit-status:stage-" \o o.stage
                ELSE IF (e.nfiles > 0) # o.files THEN "output-files:stage-" \o o.stage
                ELSE IF e.exit # 0 /\ e.ndiag = 0 THEN "refusal-without-diagnostic"
                \* e.funcs lists the own name of every message that got an encoder and a decoder, once per message:
                \* a name selects EVERY message of that name, in whatever scope it is declared
                ELSE IF o.files /\ \E n \in names \cup {e.funcs[x] : x \in 1..Len(e.funcs)} :
                            Cardinality({x \in 1..Len(e.funcs) : e.funcs[x] = n})
                            # (IF n \in o.funcs THEN Cardinality({y \in 1..Len(ds) : ds[y].d = "openMsg" /\ ds[y].name = n}) ELSE 0)
                     THEN "functions-generated"
                ELSE IF o.files /\ ~e.funcs_same_text THEN "function-text-differs-from-unfiltered"
                ELSE IF o.files /\ ~e.decls_same THEN "declarations-differ-from-unfiltered"
                ELSE ""
      [] e.ev = "Declared" ->
            \* every identifier the naming scheme prescribes is declared in the output (C15)
            With({e.ids[x] : x \in 1..Len(e.ids)}, LAMBDA D :
            With(ExpectedIds(FileIdx(e.file), e.lang, e.stdmode), LAMBDA E :
                IF \E x \in E : x \notin D
                THEN "identifier-missing:" \o e.lang \o ":" \o (CHOOSE x \in E : x \notin D)
                ELSE ""))
      [] e.ev = "Files" ->
            IF \E x \in 1..Len(e.names) : e.names[x] = OutBase(tr.files[FileIdx(e.file)].base) \o e.ext THEN ""
            ELSE "output-file-name:" \o e.ext
      [] e.ev = "FilesNamed" ->
            \* the schema file carries an unusual name (dots, dashes, no extension): the written file is still
            \* <base name>_bp<ext>, where only the last dotted part is the extension
            IF \E x \in 1..Len(e.names) : e.names[x] = OutBase(FileBaseOf(e.parts)) \o e.ext THEN ""
            ELSE "output-file-name:" \o e.ext \o ":" \o OutBase(FileBaseOf(e.parts))
      [] e.ev = "SameSeq" -> IF e.a = e.b THEN "" ELSE "prefix-changes:" \o e.what
      [] e.ev = "CliTotal" ->
            \* the command line is total too: a diagnostic and exit status 0 or 1, never a traceback
            IF e.traceback THEN "cli-traceback:" \o e.what
            ELSE IF e.exit \notin {0, 1} THEN "cli-exit-status" ELSE ""
      [] e.ev = "OutcomeType" ->
            \* C09 outcome typing: a schema, a parser error, or an OS error -- nothing else
            IF e.outcome \in {"accepted", "rejected", "oserror"} THEN ""
            ELSE IF e.outcome = "hang" THEN "hang"
            ELSE "raise:" \o e.what
      [] e.ev = "OutcomeAcc" ->
            \* outcome typing plus the exact acceptance verdict of the machine (several
            \* violations may be present: which one is reported first is not compared)
            IF ~(e.outcome \in {"accepted", "rejected", "oserror"})
            THEN (IF e.outcome = "hang" THEN "hang" ELSE "raise:" \o e.what)
            ELSE IF cs.status = "rejected" /\ cs.err.kind = "out-of-model" THEN "skip:out-of-model"
            ELSE IF amb THEN "skip:ambiguous-dotted-path"
            ELSE IF cs.status = "accepted" /\ e.outcome # "accepted" THEN "rejected-a-valid-schema:" \o e.what
            ELSE IF cs.status = "rejected" /\ e.outcome = "accepted" THEN "accepted-an-invalid-schema:" \o cs.err.kind
            ELSE ""
      [] e.ev = "Render" ->
            IF e.outcome \in {"ok", "renderer-error"} THEN "" ELSE "render-raise:" \o e.lang \o ":" \o e.what
      [] e.ev = "Cli" ->
            \* the command line: exit status and written files agree with the verdict
            IF cs.status = "rejected" /\ cs.err.kind = "out-of-model" THEN ""
            ELSE IF cs.status = "accepted"
                 THEN IF e.exit # 0 THEN "nonzero-exit-on-valid" ELSE IF e.nfiles = 0 THEN "no-output" ELSE ""
            ELSE IF e.exit = 0 THEN "zero-exit-on-invalid"
                 ELSE IF e.nfiles # 0 THEN "output-written-on-rejection"
                 ELSE IF e.traceback THEN "traceback"
                 ELSE ""
      [] e.ev = "Msg" ->
            With(DefIn(e.file, e.path), LAMBDA d :
                IF d.k # "msg" THEN "no-such-message"
                ELSE IF d.nbits # e.nbits THEN "message-nbits"
                ELSE IF FieldRows(d) # e.fields THEN "message-fields"
                ELSE "")
      [] e.ev = "Const" ->
            With(DefIn(e.file, << e.name >>), LAMBDA d :
                IF d.k # "const" THEN "no-such-constant"
                ELSE IF d.vt # e.vt THEN "constant-type"
                ELSE IF d.v # e.v THEN "constant-value"
                ELSE "")
      [] e.ev = "ConstLit" ->
            \* the literal emitted into a target language denotes the declared value
            With(DefIn(e.file, << e.name >>), LAMBDA d :
                IF d.k # "const" THEN "no-such-constant"
                ELSE IF d.vt = "int" /\ ~InModel(d.v) THEN ""
                ELSE IF d.vt # e.vt THEN "literal-type:" \o e.lang
                ELSE IF d.v # e.v THEN "literal-value:" \o e.lang
                ELSE "")
      [] e.ev = "ConstMissing" -> "constant-not-emitted:" \o e.lang
      [] e.ev = "Raise" -> "raise:" \o e.what
      [] e.ev = "Fault" -> "fault:" \o e.what
      [] e.ev = "Refs" ->
            \* every reference the real parser recorded resolves where the spec says
            With(RefSet, LAMBDA S :
            With({<< e.refs[x][1], e.refs[x][2], e.refs[x][3], e.refs[x][4], e.refs[x][5] >> : x \in 1..Len(e.refs)},
                 LAMBDA O :
                IF O = S THEN ""
                ELSE IF \E o \in O : o \notin S THEN "reference-resolved-elsewhere" ELSE "reference-missing"))
      [] e.ev = "DefLine" ->
            With(DefIn(e.file, e.path), LAMBDA d :
                IF d.k = "none" THEN "no-such-definition"
                ELSE IF d.line # e.line THEN "definition-line" ELSE "")
      [] e.ev = "WantType" ->
            With(DefIn(e.file, e.path), LAMBDA d :
                IF d.k = "none" \/ ~IsTypeDef(d) THEN "no-such-type"
                ELSE IF PrintT("R|" \o ToString(tid) \o "|" \o ToString(l) \o "|" \o ToJson(TypeOfDef(d))) THEN "" ELSE "")
      [] e.ev = "Terminates" ->
            IF steps > TotalDecls(tr.files) * Len(tr.files) + 1 THEN "too-many-steps" ELSE ""
      [] OTHER -> "machinery:unknown-event"

Decide ==
    /\ cs.status # "run"
    /\ l <= Len(tr.obs)
    /\ LET r == Check(tr.obs[l])
       IN  why' = IF why = "" /\ r # "" THEN ToString(l) \o ":" \o r ELSE why
    /\ l' = l + 1
    /\ UNCHANGED <<tid, tr, cs, steps, amb>>

Report ==
    /\ cs.status # "run"
    /\ l = Len(tr.obs) + 1
    /\ PrintT("V|" \o ToString(tid) \o "|" \o (IF why = "" THEN "1" ELSE "0") \o "|" \o why
              \o "|" \o cs.status \o "|" \o cs.err.kind)
    /\ l' = l + 1
    /\ UNCHANGED <<tid, tr, cs, why, steps, amb>>

Next == Compile \/ Decide \/ Report
Spec == Init /\ [][Next]_tvars

(* bounded liveness as a step counter (C09: compilation terminates) *)
StepBound == steps <= TotalDecls(tr.files) * Len(tr.files) + 1
=============================================================================
