--------------------------------- MODULE Cli ---------------------------------
(***************************************************************************)
(* bitproto._main.main as a staged machine:                                *)
(*   Parse (traditional mode iff -O and not -c) -> Lint -> CheckOnly ->    *)
(*   language given? -> -F without -O? -> Render (language supports -O?,   *)
(*   filter) -> Write.                                                     *)
(* fatal() exits 1, a normal return exits 0.  The outcome is a function of *)
(* the configuration and of two facts about the schema: whether the parser *)
(* accepts it in the chosen mode, and the names of its messages.           *)
(*                                                                         *)
(* cfg = [lang: "c"|"go"|"py"|"", O: BOOLEAN, F: set of names, useF:       *)
(*        BOOLEAN, check: BOOLEAN]                                         *)
(***************************************************************************)
EXTENDS Naturals, FiniteSets, Sequences

SupportsOpt(lang) == lang \in {"c", "go"}

Stages == <<"parse", "lint", "check-only", "language", "filter-flag", "render", "write">>

(* the stage at which main() stops and how *)
CliOutcome(cfg, parseOK, warnings, msgNames) ==
    IF ~parseOK THEN [exit |-> 1, stage |-> "parse", files |-> FALSE, funcs |-> {}]
    ELSE IF cfg.check THEN [exit |-> IF warnings > 0 THEN 1 ELSE 0, stage |-> "check-only", files |-> FALSE, funcs |-> {}]
    ELSE IF cfg.lang = "" THEN [exit |-> 1, stage |-> "language", files |-> FALSE, funcs |-> {}]
    ELSE IF ~cfg.O /\ cfg.useF /\ cfg.F # {} THEN [exit |-> 1, stage |-> "filter-flag", files |-> FALSE, funcs |-> {}]
    ELSE IF cfg.O /\ ~SupportsOpt(cfg.lang) THEN [exit |-> 1, stage |-> "render", files |-> FALSE, funcs |-> {}]
    ELSE [exit |-> 0, stage |-> "write", files |-> TRUE,
          funcs |-> IF cfg.O /\ cfg.useF /\ cfg.F # {} THEN msgNames \cap cfg.F ELSE msgNames]

(* traditional mode is asked of the parser iff -O is given and -c is not *)
TraditionalParse(cfg) == cfg.O /\ ~cfg.check
=============================================================================
