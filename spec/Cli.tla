--------------------------------- MODULE Cli ---------------------------------
(***************************************************************************)
(* bitproto._main.main as a staged machine:                                *)
(*   Parse (traditional mode iff -O and not -c) -> Lint -> CheckOnly ->    *)
(*   language given? -> -F without -O? -> Render (language supports -O?,   *)
(*   filter) -> Write.                                                     *)
(* fatal() exits 1, a normal return exits 0.  The outcome is a function of *)
(* the configuration and of two facts about the schema: whether the parser *)
(* accepts it in the chosen mode, and the names of its messages.           *)
(*                                                                         *)
(* cfg = [lang: "c"|"go"|"py"|"", O: BOOLEAN, F: set of names, useF:       *)
(*        BOOLEAN, check: BOOLEAN]                                         *)
(***************************************************************************)
EXTENDS Naturals, FiniteSets, Sequences

SupportsOpt(lang) == lang \in {"c", "go"}

Stages == <<"parse", "lint", "check-only", "language", "filter-flag", "render", "write">>

(* the stage at which main() stops and how *)
CliOutcome(cfg, parseOK, warnings, msgNames) ==
    IF ~parseOK THEN [exit |-> 1, stage |-> "parse", files |-> FALSE, funcs |-> {}]
    ELSE IF cfg.check THEN [exit |-> IF warnings > 0 THEN 1 ELSE 0, stage |-> "check-only", files |-> FALSE, funcs |-> {}]
    ELSE IF cfg.lang = "" THEN [exit |-> 1, stage |-> "language", files |-> FALSE, funcs |-> {}]
    ELSE IF ~cfg.O /\ cfg.useF /\ cfg.F # {} THEN [exit |-> 1, stage |-> "filter-flag", files |-> FALSE, funcs |-> {}]
    ELSE IF cfg.O /\ ~SupportsOpt(cfg.lang) THEN [exit |-> 1, stage |-> "render", files |-> FALSE, funcs |-> {}]
    ELSE [exit |-> 0, stage |-> "write", files |-> TRUE,
          funcs |-> IF cfg.O /\ cfg.useF /\ cfg.F # {} THEN msgNames \cap cfg.F ELSE msgNames]

(* run_bitproto: the -F argument as the command line spells it -- a sequence of tokens in which   *)
(* "," separates the names and " " is a blank; each piece is stripped of the blanks around it;     *)
(* the empty argument means "no filter".  A piece with a blank inside, or an empty piece, is a    *)
(* name no message has.                                                                           *)
RECURSIVE SplitAt(_, _)
SplitAt(toks, sep) ==
    IF \A x \in 1..Len(toks) : toks[x] # sep THEN << toks >>
    ELSE LET k == CHOOSE x \in 1..Len(toks) : toks[x] = sep /\ \A y \in 1..(x - 1) : toks[y] # sep
         IN  << SubSeq(toks, 1, k - 1) >> \o SplitAt(SubSeq(toks, k + 1, Len(toks)), sep)
RECURSIVE StripL(_)
StripL(p) == IF p # <<>> /\ p[1] = " " THEN StripL(Tail(p)) ELSE p
RECURSIVE StripR(_)
StripR(p) == IF p # <<>> /\ p[Len(p)] = " " THEN StripR(SubSeq(p, 1, Len(p) - 1)) ELSE p
RECURSIVE Join(_)
Join(p) == IF p = <<>> THEN "" ELSE p[1] \o Join(Tail(p))
FilterNames(toks) ==
    IF toks = <<>> THEN {}
    ELSE LET ps == SplitAt(toks, ",") IN {Join(StripL(StripR(ps[x]))) : x \in 1..Len(ps)}

(* traditional mode is asked of the parser iff -O is given and -c is not *)
TraditionalParse(cfg) == cfg.O /\ ~cfg.check
=============================================================================
