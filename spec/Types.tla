------------------------------- MODULE Types -------------------------------
(***************************************************************************)
(* Type algebra of bitproto as the documentation states it.                *)
(*                                                                         *)
(* A resolved type is a record:                                            *)
(*   [k |-> "bool"] [k |-> "byte"] [k |-> "uint", n |-> 1..64]             *)
(*   [k |-> "int", n |-> 1..64]                                            *)
(*   [k |-> "enum", n |-> 1..64, name |-> STRING]                          *)
(*   [k |-> "alias", name |-> STRING, to |-> t]                            *)
(*   [k |-> "array", ext |-> BOOLEAN, cap |-> 1..65535, elem |-> t]        *)
(*   [k |-> "msg", name |-> STRING, ext |-> BOOLEAN,                       *)
(*    fields |-> << [num |-> 1..255, name |-> STRING, t |-> t], ... >>]    *)
(* fields are kept in DECLARATION order; the wire order is by num.         *)
(*                                                                         *)
(* A value of a type: leaf -> sequence of n bits, least significant first  *)
(* (two's complement for signed); alias -> value of target; array ->       *)
(* sequence of cap values; msg -> sequence of values aligned with fields   *)
(* (declaration order).                                                    *)
(*                                                                         *)
(* TLC integers are 32 bit: sizes saturate at Sat, values are bit          *)
(* sequences, never numbers.                                               *)
(***************************************************************************)
EXTENDS Integers, Sequences, FiniteSets, SequencesExt, Folds, TLC

(***************************************************************************)
(* TLC evaluates operator ARGUMENTS lazily and does not cache them when    *)
(* they mention a RECURSIVE operator (their level is unknown), and it does *)
(* not cache LET definitions referenced from inside a function constructor *)
(* / set comprehension / quantifier body: a value used k times is then     *)
(* recomputed k times -- exponential in the nesting depth (measured).      *)
(* With(x, F) evaluates x exactly once and applies F to the VALUE (a bound *)
(* variable is always concrete).  Rules of this code base:                 *)
(*  - a value computed by a recursive operator is bound with With (or, at  *)
(*    the top of an expression, LET) before it is passed on;               *)
(*  - an operator that uses a parameter inside a constructor or quantifier *)
(*    binds it with With first.                                            *)
(***************************************************************************)
With(x, F(_)) == CHOOSE r \in {TLCEval(F(y)) : y \in {TLCEval(x)}} : TRUE

(* A function constructor is a lazy closure in TLC (re-evaluated on every  *)
(* application); Eager forces it into an explicit function/tuple.  Every   *)
(* constructor whose result is handed on is wrapped.                       *)
Eager(f) == TLCEval(f)

Sat == 536870912   \* 2^29, "too large" marker for saturating arithmetic

SatAdd(a, b) == IF a + b >= Sat THEN Sat ELSE a + b
SatMul(a, b) == IF a = 0 \/ b = 0 THEN 0
                ELSE IF a >= Sat \/ b >= Sat \/ a > Sat \div b THEN Sat ELSE a * b

Max2(a, b) == IF a >= b THEN a ELSE b
Min2(a, b) == IF a <= b THEN a ELSE b
Min3(a, b, c) == Min2(a, Min2(b, c))

LeafKinds == {"bool", "byte", "uint", "int", "enum"}
IsLeaf(t) == t.k \in LeafKinds

LeafBits(t) == CASE t.k = "bool" -> 1
                 [] t.k = "byte" -> 8
                 [] OTHER -> t.n

RECURSIVE Strip(_)
Strip(t) == IF t.k = "alias" THEN Strip(t.to) ELSE t

IsSigned(t) == Strip(t).k = "int"

(* Indices of the fields in ascending field-number order. *)
Order(fields) ==
    SortSeq([x \in 1..Len(fields) |-> x], LAMBDA a, b : fields[a].num < fields[b].num)

SumSeq(s) == FoldLeft(LAMBDA acc, x : SatAdd(acc, x), 0, s)

(* The sentence of C01: sum of the declared widths plus 16 per extensible   *)
(* message or array.                                                        *)
RECURSIVE NBits(_)
NBits(t) ==
    CASE IsLeaf(t) -> LeafBits(t)
      [] t.k = "alias" -> NBits(t.to)
      [] t.k = "array" ->
            LET e == NBits(t.elem)
                body == SatMul(t.cap, e)
            IN  SatAdd(IF t.ext THEN 16 ELSE 0, body)
      [] t.k = "msg" ->
            LET body == SumSeq([x \in 1..Len(t.fields) |-> NBits(t.fields[x].t)])
            IN  SatAdd(IF t.ext THEN 16 ELSE 0, body)

NBytes(t) == (NBits(t) + 7) \div 8

(* No extensible construct anywhere inside: the element stride is static.  *)
RECURSIVE Fixed(_)
Fixed(t) ==
    CASE IsLeaf(t) -> TRUE
      [] t.k = "alias" -> Fixed(t.to)
      [] t.k = "array" -> ~t.ext /\ Fixed(t.elem)
      [] t.k = "msg" -> ~t.ext /\ \A x \in 1..Len(t.fields) : Fixed(t.fields[x].t)

HasExt(t) == ~Fixed(t)

(* Storage width in C / Go: the smallest of 8/16/32/64 that covers n.      *)
StorageBits(n) == IF n <= 8 THEN 8 ELSE IF n <= 16 THEN 16 ELSE IF n <= 32 THEN 32 ELSE 64

(* Number of leaves, in processing order. *)
RECURSIVE NLeaves(_)
NLeaves(t) ==
    CASE IsLeaf(t) -> 1
      [] t.k = "alias" -> NLeaves(t.to)
      [] t.k = "array" -> LET e == NLeaves(t.elem) IN SatMul(t.cap, e)
      [] t.k = "msg" -> SumSeq([x \in 1..Len(t.fields) |-> NLeaves(t.fields[x].t)])

(* ---- bit helpers ---- *)
Bit == {0, 1}
Pow2(n) == 2 ^ n
NumBits(x, w) == With(x, LAMBDA xx : [b \in 1..w |-> (xx \div Pow2(b - 1)) % 2])   \* x < 2^30
Bits16(x) == NumBits(x, 16)
BitsNum(bs) == With(bs, LAMBDA x :
                    FoldLeft(LAMBDA acc, b : acc + x[b] * Pow2(b - 1), 0,
                             [b \in 1..Len(x) |-> b]))             \* Len(bs) <= 30
Zeros(n) == [b \in 1..n |-> 0]
Ones(n) == [b \in 1..n |-> 1]

(* Well-formedness of a value for a type. *)
RECURSIVE WF(_, _)
WF(t, v) ==
    CASE IsLeaf(t) -> Len(v) = LeafBits(t) /\ \A b \in 1..Len(v) : v[b] \in Bit
      [] t.k = "alias" -> WF(t.to, v)
      [] t.k = "array" -> Len(v) = t.cap /\ \A e \in 1..t.cap : WF(t.elem, v[e])
      [] t.k = "msg" -> Len(v) = Len(t.fields)
                        /\ \A x \in 1..Len(t.fields) : WF(t.fields[x].t, v[x])
=============================================================================
