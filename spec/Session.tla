------------------------------- MODULE Session -------------------------------
(***************************************************************************)
(* A compiler process with memo caches executing a schedule of compile     *)
(* jobs, and process restarts (other hash seed / cwd / output directory).  *)
(* A schema is a set of definitions [name, body]; rendering a definition   *)
(* for a language gives a text; caches remember rendered texts.  With      *)
(* caches keyed by the IDENTITY of the definition node (what               *)
(* utils.cache / cache_if_frozen / safe_hash do) the output of a job is a  *)
(* function of Key(job) = (schema contents, language, options) in every    *)
(* reachable state.  Two weaker keyings are kept as negative controls that *)
(* TLC must refute: by definition NAME, and by name without the LANGUAGE.  *)
(***************************************************************************)
EXTENDS Naturals, Sequences, FiniteSets, TLC

CONSTANTS CacheKeying      \* "identity" | "name" | "name-no-lang"

Schemas == {"S1", "S2", "S3"}
Langs == {"c", "go"}
(* definitions of each schema: S1 and S2 both define A and B, differently *)
Defs(s) == CASE s = "S1" -> {[name |-> "A", body |-> 1], [name |-> "B", body |-> 2]}
             [] s = "S2" -> {[name |-> "A", body |-> 3], [name |-> "B", body |-> 2]}
             [] s = "S3" -> {[name |-> "C", body |-> 1]}
Jobs == [schema : Schemas, lang : Langs]

(* what rendering a definition yields (injective in everything that matters) *)
Render(d, lang) == <<d.name, d.body, lang>>
Fresh(job) == {Render(d, job.lang) : d \in Defs(job.schema)}

KeyOf(job, d) ==
    CASE CacheKeying = "identity" -> <<job.schema, d.name, d.body, job.lang>>   \* the node itself, per language formatter
      [] CacheKeying = "name" -> <<d.name, job.lang>>
      [] OTHER -> <<d.name>>

VARIABLES cache, seen, proc, steps
vars == <<cache, seen, proc, steps>>

Init == cache = <<>> /\ seen = <<>> /\ proc = 1 /\ steps = 0

Lookup(k) == IF \E x \in 1..Len(cache) : cache[x][1] = k
             THEN cache[CHOOSE x \in 1..Len(cache) : cache[x][1] = k][2] ELSE <<"miss">>

Compile(job) ==
    LET out == {IF Lookup(KeyOf(job, d)) # <<"miss">> THEN Lookup(KeyOf(job, d)) ELSE Render(d, job.lang) :
                  d \in Defs(job.schema)}
        newEntries == {<<KeyOf(job, d), Render(d, job.lang)>> :
                         d \in {e \in Defs(job.schema) : Lookup(KeyOf(job, e)) = <<"miss">>}}
        RECURSIVE AddAll(_, _)
        AddAll(c, S) == IF S = {} THEN c ELSE LET e == CHOOSE e \in S : TRUE IN AddAll(Append(c, e), S \ {e})
    IN  /\ cache' = AddAll(cache, newEntries)
        /\ seen' = Append(seen, [job |-> job, out |-> out, proc |-> proc])
        /\ steps' = steps + 1
        /\ proc' = proc

Restart == /\ cache' = <<>> /\ proc' = proc + 1 /\ seen' = seen /\ steps' = steps + 1

Next == steps < 3 /\ ((\E j \in Jobs : Compile(j)) \/ Restart)
Spec == Init /\ [][Next]_vars

(* C18: every observation equals what a fresh process produces for that key *)
Functional == \A x \in 1..Len(seen) : seen[x].out = Fresh(seen[x].job)
(* and hence any two observations of the same key agree, whatever came before *)
Deterministic == \A x, y \in 1..Len(seen) : seen[x].job = seen[y].job => seen[x].out = seen[y].out
=============================================================================
