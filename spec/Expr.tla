--------------------------------- MODULE Expr ---------------------------------
(***************************************************************************)
(* A bit-provenance evaluator for the straight-line statements that        *)
(* optimization mode generates (renderer/formatter.py:606-791 and the C /  *)
(* Go formatters): running a generated Encode* / Decode* body on TAGS      *)
(* instead of bits decides it for ALL inputs at once.                      *)
(*                                                                         *)
(* A CELL is 0 (a zero bit), a positive TAG naming the source bit that     *)
(* flows here, or Conflict (two different sources were OR-ed together).    *)
(* A VALUE is a record [w, sg, c]: type width, signedness and 64 cells     *)
(* (least significant first) already extended to 64 by the type.           *)
(*                                                                         *)
(* Expressions (JSON ASTs produced by the harness's C / Go parser):        *)
(*   [n |-> "wire", k]            byte k of the wire buffer                *)
(*   [n |-> "fbyte", slot, fi]    byte fi of the little-endian storage of  *)
(*                                leaf slot (byte view of x, index fi)    *)
(*   [n |-> "field", slot]        the leaf's value in its storage type     *)
(*   [n |-> "const", bits]        64-bit two's complement pattern          *)
(*   [n |-> "cast", w, sg, e]  [n |-> "shl", e, by]  [n |-> "shr", e, by]  *)
(*   [n |-> "and", a, b]  [n |-> "or", a, b]  [n |-> "nz", e] (bool cast)  *)
(* Statements:                                                             *)
(*   [s |-> "set", lhs, e]  [s |-> "or", lhs, e]                           *)
(*   [s |-> "shl", slot, by]  [s |-> "shr", slot, by]     (x <<= n, x >>= n)*)
(*   [s |-> "ifbit", slot, bit, bits]   if ((x >> bit) & 1) x |= const     *)
(*   [s |-> "memset"]                                                      *)
(* mode "c": operands narrower than 32 bits are promoted to signed 32 bit  *)
(* before << >> & | ; mode "go": operands keep their own width.            *)
(***************************************************************************)
EXTENDS CCopy

WireTag(k) == 1000 + k                       \* wire bit k
FieldTag(slot, b) == 1000000 + 100 * slot + b   \* storage bit b of leaf slot
Old == 999                                   \* pre-existing contents of an un-zeroed target

Ext(cells, w, sg) ==      \* 64 cells of a w-bit pattern extended by its type
    With(cells, LAMBDA c : [b \in 1..64 |-> IF b <= w THEN c[b] ELSE IF sg THEN c[w] ELSE 0])
Val(w, sg, cells) == [w |-> w, sg |-> sg, c |-> Ext(cells, w, sg)]

Promote(v, mode) == IF mode = "c" /\ v.w < 32 THEN [w |-> 32, sg |-> TRUE, c |-> v.c] ELSE v

(* the common type of a binary operation *)
Common(a, b) ==
    IF a.w > b.w THEN [w |-> a.w, sg |-> a.sg]
    ELSE IF b.w > a.w THEN [w |-> b.w, sg |-> b.sg]
    ELSE [w |-> a.w, sg |-> a.sg /\ b.sg]

IsConstVal(v) == \A b \in 1..64 : v.c[b] \in {0, 1}

RECURSIVE Eval(_, _, _)
Eval(e, st, mode) ==
    CASE e.n = "wire" ->
            Val(8, FALSE, [b \in 1..8 |-> st.wire[8 * e.k + b]])
      [] e.n = "fbyte" ->
            Val(8, FALSE, [b \in 1..8 |-> st.mem[e.slot + 1][8 * e.fi + b]])
      [] e.n = "field" ->
            Val(st.tab[e.slot + 1].W, st.tab[e.slot + 1].sg, st.mem[e.slot + 1])
      [] e.n = "const" ->
            [w |-> 64, sg |-> TRUE, c |-> e.bits]
      [] e.n = "cast" ->
            With(Eval(e.e, st, mode), LAMBDA v : Val(e.w, e.sg, [b \in 1..e.w |-> v.c[b]]))
      [] e.n = "nz" ->       \* (bool)x, byte2bool(x), bool2byte(x): 1 iff any bit is set
            With(Eval(e.e, st, mode), LAMBDA v :
                Val(8, FALSE, << FoldLeft(LAMBDA acc, b : OrCell(acc, v.c[b]), 0, [b \in 1..64 |-> b]) >>
                              \o [b \in 1..7 |-> 0]))
      [] e.n = "shl" ->
            With(Promote(Eval(e.e, st, mode), mode), LAMBDA v :
                Val(v.w, v.sg, [b \in 1..v.w |-> IF b > e.by THEN v.c[b - e.by] ELSE 0]))
      [] e.n = "shr" ->
            With(Promote(Eval(e.e, st, mode), mode), LAMBDA v :
                [w |-> v.w, sg |-> v.sg,
                 c |-> [b \in 1..64 |-> IF b + e.by <= 64 THEN v.c[b + e.by] ELSE v.c[64]]])
      [] e.n = "and" ->
            With(Promote(Eval(e.a, st, mode), mode), LAMBDA x :
            With(Promote(Eval(e.b, st, mode), mode), LAMBDA y :
                LET ty == Common(x, y)
                IN  [w |-> ty.w, sg |-> ty.sg,
                     c |-> [b \in 1..64 |->
                              IF y.c[b] = 0 \/ x.c[b] = 0 THEN 0
                              ELSE IF y.c[b] = 1 THEN x.c[b]
                              ELSE IF x.c[b] = 1 THEN y.c[b]
                              ELSE Conflict]]))         \* AND of two non-constant bits: outside the fragment
      [] e.n = "or" ->
            With(Promote(Eval(e.a, st, mode), mode), LAMBDA x :
            With(Promote(Eval(e.b, st, mode), mode), LAMBDA y :
                LET ty == Common(x, y)
                IN  [w |-> ty.w, sg |-> ty.sg, c |-> [b \in 1..64 |-> OrCell(x.c[b], y.c[b])]]))

(* state: wire cells, per-slot storage cells (W each), the slot table *)
Exec(st, s, mode) ==
    CASE s.s \in {"set", "or"} ->
            With(Eval(s.e, st, mode), LAMBDA v :
                LET put(old, b) == IF s.s = "set" THEN v.c[b] ELSE OrCell(old, v.c[b]) IN
                CASE s.lhs.n = "wire" ->
                        [st EXCEPT !.wire = [p \in 1..Len(@) |->
                            IF p > 8 * s.lhs.k /\ p <= 8 * s.lhs.k + 8 THEN put(@[p], p - 8 * s.lhs.k) ELSE @[p]]]
                  [] s.lhs.n = "fbyte" ->
                        [st EXCEPT !.mem[s.lhs.slot + 1] = [p \in 1..Len(@) |->
                            IF p > 8 * s.lhs.fi /\ p <= 8 * s.lhs.fi + 8 THEN put(@[p], p - 8 * s.lhs.fi) ELSE @[p]]]
                  [] s.lhs.n = "field" ->
                        [st EXCEPT !.mem[s.lhs.slot + 1] = [p \in 1..Len(@) |-> put(@[p], p)]])
      [] s.s = "shl" ->
            [st EXCEPT !.mem[s.slot + 1] = [p \in 1..Len(@) |-> IF p > s.by THEN @[p - s.by] ELSE 0]]
      [] s.s = "shr" ->     \* on a signed type the shift is arithmetic, otherwise logical
            [st EXCEPT !.mem[s.slot + 1] = [p \in 1..Len(@) |->
                IF p + s.by <= Len(@) THEN @[p + s.by]
                ELSE IF st.tab[s.slot + 1].sg THEN @[Len(@)] ELSE 0]]
      [] s.s = "ifbit" ->
            [st EXCEPT !.mem[s.slot + 1] = [p \in 1..Len(@) |->
                IF s.bits[p] = 1 THEN OrCell(@[p], @[s.bit + 1]) ELSE @[p]]]
      [] s.s = "memset" ->
            [st EXCEPT !.mem = [x \in 1..Len(@) |-> [p \in 1..Len(@[x]) |-> 0]]]

Run(st, stmts, mode) == FoldLeft(LAMBDA acc, s : Exec(acc, s, mode), st, stmts)

(* ---- the slot table of a traditional message type: leaves in DECLARATION order with their *)
(* wire offsets (wire order is by field number) ----                                         *)
RECURSIVE SlotTable(_, _)
SlotTable(t, off) ==
    CASE IsLeaf(t) -> << [n |-> LeafBits(t), sg |-> (t.k = "int"), bool |-> (t.k = "bool"),
                          W |-> IF t.k = "bool" THEN 8 ELSE StorageBits(LeafBits(t)), off |-> off] >>
      [] t.k = "alias" -> SlotTable(t.to, off)
      [] t.k = "array" ->
            With(NBits(t.elem), LAMBDA E :
                FoldLeft(LAMBDA acc, x : acc \o SlotTable(t.elem, off + (x - 1) * E), <<>>, [x \in 1..t.cap |-> x]))
      [] t.k = "msg" ->
            With(Order(t.fields), LAMBDA ord :
            \* wire offset of the field with declaration index x: widths of the fields ordered before it
            LET rank(x) == CHOOSE r \in 1..Len(ord) : ord[r] = x
                before(x) == SumSeq([r \in 1..(rank(x) - 1) |-> NBits(t.fields[ord[r]].t)])
            IN  FoldLeft(LAMBDA acc, x : acc \o SlotTable(t.fields[x].t, off + before(x)), <<>>,
                         [x \in 1..Len(t.fields) |-> x]))

EncState0(t) ==
    With(SlotTable(t, 0), LAMBDA tab :
        [wire |-> [p \in 1..(8 * NBytes(t)) |-> 0],
         \* arbitrary storage contents (one tag per bit); a bool holds 0 or 1
         mem |-> [x \in 1..Len(tab) |-> [b \in 1..tab[x].W |->
                    IF tab[x].bool /\ b > 1 THEN 0 ELSE FieldTag(x - 1, b - 1)]],
         tab |-> tab])
DecState0(t, zeroed) ==
    With(SlotTable(t, 0), LAMBDA tab :
        [wire |-> [p \in 1..(8 * NBytes(t)) |-> WireTag(p - 1)],
         mem |-> [x \in 1..Len(tab) |-> [b \in 1..tab[x].W |-> IF zeroed THEN 0 ELSE Old]],
         tab |-> tab])

(* acceptance of an encoder body: wire bit k carries exactly storage bit (k - off) of its slot *)
ExpectedWire(t) ==
    With(SlotTable(t, 0), LAMBDA tab :
    With(SortSeq([x \in 1..Len(tab) |-> x], LAMBDA a, b : tab[a].off < tab[b].off), LAMBDA byoff :
    With(FoldLeft(LAMBDA acc, x : acc \o [b \in 1..tab[x].n |-> FieldTag(x - 1, b - 1)], <<>>, byoff), LAMBDA body :
        body \o [p \in 1..(8 * NBytes(t) - Len(body)) |-> 0])))
(* acceptance of a decoder body: storage bit b < n is wire bit off + b; above: 0, or the sign bit *)
ExpectedMem(t) ==
    With(SlotTable(t, 0), LAMBDA tab :
        [x \in 1..Len(tab) |-> [b \in 1..tab[x].W |->
            IF b <= tab[x].n THEN WireTag(tab[x].off + b - 1)
            ELSE IF tab[x].sg THEN WireTag(tab[x].off + tab[x].n - 1) ELSE 0]])
=============================================================================
