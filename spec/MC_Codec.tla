------------------------------ MODULE MC_Codec ------------------------------
(***************************************************************************)
(* Bounded instance of Codec over the chain-shaped universe U_small        *)
(* (DESIGN.md section 5): checks that the implementation-shaped cursor     *)
(* machine refines the documentation-shaped Wire functions.                *)
(***************************************************************************)
EXTENDS Codec

CONSTANTS Depth,       \* nesting depth of the chain
          Caps,        \* array capacities
          LeafSet,     \* "small" | "wide"
          EvoSteps,    \* 0..2 evolution steps between receiver and sender (decode)
          Modes,       \* subset of {"enc","dec"}
          RawPad       \* number of garbage bits above each leaf in encode sources

Minus1 == -1
U3 == [k |-> "uint", n |-> 3]
LeafTypes ==
    IF LeafSet = "tiny" THEN {U3}
    ELSE IF LeafSet = "small"
    THEN {[k |-> "bool"], U3, [k |-> "int", n |-> 13]}
    ELSE {[k |-> "bool"], [k |-> "byte"], U3, [k |-> "int", n |-> 5], [k |-> "int", n |-> 13],
          [k |-> "uint", n |-> 17], [k |-> "int", n |-> 33], [k |-> "enum", n |-> 9, name |-> "E"]}

Alias(x) == [k |-> "alias", name |-> "T", to |-> x]
Arr(e, c, x) == [k |-> "array", ext |-> e, cap |-> c,
                 elem |-> IF x.k = "array" THEN Alias(x) ELSE x]
(* fields are declared out of number order on purpose *)
Msg(e, pad, x, tail) ==
    [k |-> "msg", name |-> "M", ext |-> e,
     fields |-> << [num |-> 2, name |-> "x", t |-> x] >>
                \o (IF tail THEN << [num |-> 3, name |-> "tail", t |-> U3] >> ELSE <<>>)
                \o (IF pad THEN << [num |-> 1, name |-> "pad", t |-> U3] >> ELSE <<>>)]

RECURSIVE X(_)
X(d) == IF d = 0
        THEN LeafTypes \cup {Alias(l) : l \in {U3}}
        ELSE X(d - 1)
             \cup {Arr(e, c, x) : e \in BOOLEAN, c \in Caps, x \in X(d - 1)}
             \cup {Msg(e, p, x, tl) : e \in BOOLEAN, p \in BOOLEAN, x \in X(d - 1), tl \in BOOLEAN}

(* Depth = -1 selects one hand-picked family: an extensible array of        *)
(* extensible messages followed by a tail field (the smallest shape on     *)
(* which a statically computed element stride goes wrong).                 *)
Schemas ==
    IF Depth < 0
    THEN {Msg(FALSE, p, Arr(TRUE, c, Msg(TRUE, FALSE, U3, FALSE)), TRUE) : p \in BOOLEAN, c \in Caps}
    ELSE {Msg(e, p, x, tl) : e \in BOOLEAN, p \in BOOLEAN, x \in X(Depth), tl \in BOOLEAN}

(* --- the two permitted evolution steps (Evolve.tla restates them as actions) --- *)
NewFieldTypes == {U3, [k |-> "int", n |-> 13]}
MaxNum(fields) == CHOOSE m \in {fields[x].num : x \in 1..Len(fields)} :
                     \A x \in 1..Len(fields) : fields[x].num <= m
RECURSIVE Evo(_)
Evo(t) ==
    CASE IsLeaf(t) -> {}
      [] t.k = "alias" -> {[t EXCEPT !.to = y] : y \in Evo(t.to)}
      [] t.k = "array" ->
            {[t EXCEPT !.elem = y] : y \in Evo(t.elem)}
            \cup (IF t.ext THEN {[t EXCEPT !.cap = @ + 1], [t EXCEPT !.cap = @ + 2]} ELSE {})
      [] t.k = "msg" ->
            UNION {{[t EXCEPT !.fields[x].t = y] : y \in Evo(t.fields[x].t)} : x \in 1..Len(t.fields)}
            \cup (IF t.ext
                  THEN {[t EXCEPT !.fields = Append(@, [num |-> MaxNum(t.fields) + 1, name |-> "nf", t |-> nt])] :
                          nt \in NewFieldTypes}
                  ELSE {})

RECURSIVE EvoN(_, _)
EvoN(t, n) == IF n = 0 THEN {t} ELSE {t} \cup UNION {EvoN(y, n - 1) : y \in Evo(t)}

(* --- basis values: all zero, all ones, each single bit --- *)
RECURSIVE Fill(_, _)
Fill(t, b) ==
    CASE IsLeaf(t) -> [p \in 1..LeafBits(t) |-> b]
      [] t.k = "alias" -> Fill(t.to, b)
      [] t.k = "array" -> [e \in 1..t.cap |-> Fill(t.elem, b)]
      [] t.k = "msg" -> [x \in 1..Len(t.fields) |-> Fill(t.fields[x].t, b)]

(* value whose q-th leaf bit (in declaration-order flattening) is one *)
RECURSIVE VBits(_)
VBits(t) ==
    CASE IsLeaf(t) -> LeafBits(t)
      [] t.k = "alias" -> VBits(t.to)
      [] t.k = "array" -> t.cap * VBits(t.elem)
      [] t.k = "msg" -> SumSeq([x \in 1..Len(t.fields) |-> VBits(t.fields[x].t)])
RECURSIVE Single(_, _)
Single(t, q) ==   \* q in 1..VBits(t), or out of range for "no bit"
    CASE IsLeaf(t) -> [p \in 1..LeafBits(t) |-> IF p = q THEN 1 ELSE 0]
      [] t.k = "alias" -> Single(t.to, q)
      [] t.k = "array" ->
            LET E == VBits(t.elem) IN [e \in 1..t.cap |-> Single(t.elem, q - (e - 1) * E)]
      [] t.k = "msg" ->
            [x \in 1..Len(t.fields) |->
                Single(t.fields[x].t,
                       q - SumSeq([y \in 1..(x - 1) |-> VBits(t.fields[y].t)]))]

Values(t) == {Fill(t, 0), Fill(t, 1)} \cup {Single(t, q) : q \in 1..VBits(t)}

(* encode sources: each leaf followed by RawPad garbage (one) bits -- an   *)
(* out-of-range value whose low n bits are the leaf (C07 containment)      *)
Sources(t, v) ==
    LET ls == Leaves(t, v) IN [x \in 1..Len(ls) |-> ls[x] \o Ones(RawPad)]

VARIABLE case   \* [tR, tS, v]  receiver type, sender type, value (of the sender type)
vars == <<cvars, case>>

Init ==
    \E m \in Modes, tR \in Schemas :
        \E tS \in (IF m = "dec" THEN EvoN(tR, EvoSteps) ELSE {tR}) :
            \E v \in Values(tS) :
                /\ case = [tR |-> tR, tS |-> tS, v |-> v]
                /\ LET w == Enc(tS, v)
                       srcs == Sources(tR, v)
                       wire == Bytes(w)
                   IN  Start(m, tR, IF m = "enc" THEN srcs ELSE <<>>,
                             IF m = "dec" THEN wire ELSE <<>>)

Next == CodecNext /\ UNCHANGED case

Spec == Init /\ [][Next]_vars /\ WF_vars(Next)

(* ---------------- invariants ---------------- *)
InBounds == st # "fault" /\ i <= 8 * Len(buf) + 65535

CursorInside == (st = "run" /\ pc <= Len(ops) /\ Op.op \in {"Leaf", "Ahead"} /\ j < CurN)
                    => TRUE

(* C01: the machine's encode result is the documented layout *)
EncRefines ==
    (st = "done" /\ mode = "enc") =>
        LET w == Enc(case.tR, case.v)
        IN  /\ buf = Bytes(w)
            /\ Len(buf) = NBytes(case.tR)
            /\ i = NBits(case.tR)

(* C02 / C05: the machine's decode result is the (restricted) value *)
DecRefines ==
    (st = "done" /\ mode = "dec") =>
        LET rv == RestrictV(case.tR, case.tS, case.v)
            w == BitsOf(buf)
            d == Dec(case.tR, w, 0)
            dv == d.v
        IN  /\ out = Leaves(case.tR, rv)
            /\ out = Leaves(case.tR, dv)
            /\ i = d.i

(* Wire-level theorem inside the bounds: Dec inverts Enc, across evolutions *)
WireRoundTrip ==
    (pc = 1 /\ mode = "dec") =>
        LET w == Enc(case.tS, case.v)
            d == Dec(case.tR, w, 0)
        IN  d.v = RestrictV(case.tR, case.tS, case.v)

(* every chunk lies inside one wire byte and one value byte and makes progress *)
ChunkShape ==
    (Running /\ Op.op \in {"Leaf", "Ahead"} /\ j < CurN) =>
        LET c == NCopy(i, j, CurN)
        IN  /\ c >= 1
            /\ (i % 8) + c <= 8
            /\ (j % 8) + c <= 8
            /\ j + c <= CurN

(* C07 containment: a chunk changes only the wire bits of its own slot *)
OnlyOwnSlot ==
    [][ (mode = "enc" /\ i' # i /\ buf' # buf) =>
            \A p \in 1..(8 * Len(buf)) :
                (p - 1 < i \/ p - 1 >= i') => BitsOf(buf')[p] = BitsOf(buf)[p] ]_vars

Termination == <>(st \in {"done", "fault"})
=============================================================================
