------------------------------ MODULE MC_CCopy ------------------------------
(***************************************************************************)
(* Complete exploration of BpCopyBufferBits: every n in 1..MaxN, every     *)
(* destination / source bit offset 0..7, little- and big-endian variant,   *)
(* on provenance tags (all inputs at once).                                *)
(***************************************************************************)
EXTENDS CCopy

CONSTANTS MaxN

VARIABLES s, be, n0, di0, si0
vars == <<s, be, n0, di0, si0>>

(* destination: region to be written starts empty (contract: zeroed), the  *)
(* rest carries "old content" tags; source: tag 1000+p at bit position p   *)
DLen(n, di) == 8 * (((di + n + 7) \div 8) + 5)
SLen(n, si) == 8 * (((si + n + 7) \div 8) + 5)
Dst0(n, di) == [p \in 1..DLen(n, di) |-> IF p - 1 >= di /\ p - 1 < di + n THEN 0 ELSE -p]
Src0(n, si) == [p \in 1..SLen(n, si) |-> 1000 + p]

Init ==
    /\ be \in BOOLEAN
    /\ n0 \in 1..MaxN /\ di0 \in 0..7 /\ si0 \in 0..7
    /\ s = CCInit(n0, di0, si0, Src0(n0, si0), Dst0(n0, di0))

Next == s.n > 0 /\ s' = CCStep(s, be) /\ UNCHANGED <<be, n0, di0, si0>>
Spec == Init /\ [][Next]_vars /\ WF_vars(Next)

Done == s.n <= 0

(* every iteration copies at least one bit and never overshoots *)
Progress == [][s'.n < s.n /\ s'.n >= 0]_vars
Terminates == <>Done

(* the copy is the plain bit copy, for all inputs at once *)
Refines ==
    Done => \A p \in 1..Len(s.dst) :
                (p - 1 >= di0 /\ p - 1 < di0 + n0) => s.dst[p] = 1000 + (si0 + (p - 1 - di0)) + 1

(* bits before the region are untouched; bits after it are untouched or    *)
(* zeroed by an assigning fast path (and then only inside the footprint)   *)
Containment ==
    \A p \in 1..Len(s.dst) :
        /\ (p - 1 < di0) => s.dst[p] = -p
        /\ (p - 1 >= di0 + n0) => (s.dst[p] = -p \/ (s.dst[p] = 0 /\ ((p - 1) \div 8) \in s.wfoot))
        /\ s.dst[p] # Conflict

(* memory safety as a design fact: writes stay inside the bytes the bits   *)
(* occupy, reads stay inside the bytes the source bits occupy              *)
Footprint ==
    /\ \A b \in s.wfoot : b >= 0 /\ b < (di0 + n0 + 7) \div 8
    /\ \A b \in s.rfoot : b >= 0 /\ b < (si0 + n0 + 7) \div 8

(* in the way the library calls it one of the offsets is zero; then an     *)
(* assigning path never zeroes a bit after the region unless that bit lies *)
(* in the padding of the destination's last byte/word                     *)
LibraryUse == di0 = 0 \/ si0 = 0
=============================================================================
