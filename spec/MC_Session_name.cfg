SPECIFICATION Spec
CONSTANTS CacheKeying = "name"
INVARIANT Functional
INVARIANT Deterministic
CHECK_DEADLOCK FALSE
