---------------------------- MODULE MC_CodecDump ----------------------------
(***************************************************************************)
(* Direction spec -> code for the codec: TLC writes the complete universe  *)
(* U_small (every chain-shaped schema of MC_Codec's bounds) with its basis *)
(* values (all zero, all ones, every single bit); the harness turns each   *)
(* schema into a .bitproto text, compiles it, and drives the real Python   *)
(* and C code over exactly these cases (the events are then decided by     *)
(* WireTrace as usual).  One line per schema:  U|<json>                    *)
(***************************************************************************)
EXTENDS MC_Codec, Json

DumpAll == \A t \in Schemas :
              PrintT("U|" \o ToJson([t |-> t, vs |-> SetToSeq(Values(t)),
                                     evo |-> SetToSeq(EvoN(t, EvoSteps) \ {t})]))
ASSUME DumpAll

(* no behaviours are explored: the dump happens while the assumption is evaluated *)
DInit == FALSE /\ UNCHANGED vars
DNext == UNCHANGED vars
=============================================================================
