--------------------------- MODULE MC_SessionDump ---------------------------
(***************************************************************************)
(* Direction spec -> code for C18: TLC writes every behaviour of Session   *)
(* (schedules of three steps over compile jobs and process restarts) with  *)
(* a history variable; the harness maps S1, S2, S3 to concrete schema      *)
(* files (S1 and S2 define A and B, A differently; S3 defines C with A's   *)
(* body) and replays every schedule into real compiler processes.          *)
(* One line per behaviour:  H|<json>                                       *)
(***************************************************************************)
EXTENDS Session, Json

VARIABLE hist
dvars == <<vars, hist>>

DInit == Init /\ hist = <<>>
DNext ==
    /\ steps < 3
    /\ \/ \E j \in Jobs : Compile(j) /\ hist' = Append(hist, [a |-> "compile", schema |-> j.schema, lang |-> j.lang])
       \/ Restart /\ hist' = Append(hist, [a |-> "restart", schema |-> "", lang |-> ""])
DSpec == DInit /\ [][DNext]_dvars

Dump == (steps = 3) => PrintT("H|" \o ToJson(hist))
=============================================================================
