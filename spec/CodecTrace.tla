----------------------------- MODULE CodecTrace -----------------------------
(***************************************************************************)
(* Step-level trace validation of the Python runtime against the cursor    *)
(* machine: the recorded run of one encode() / decode() call -- message /  *)
(* array entry and exit with the cursor, and every chunk (i, j, c) with    *)
(* its full path -- is replayed through the ACTIONS of Codec.tla.  Every   *)
(* event-bearing action must find its event next in the trace; LeafDone,   *)
(* AheadDone and Finish are silent (the code has no observable step there).*)
(***************************************************************************)
EXTENDS Codec, WireOps

VARIABLES tid, tr, l, why
tvars == <<tid, tr, l, why, cvars>>

TInit ==
    \E T \in {Traces} : \E k \in 1..Len(T) :
        /\ tid = k /\ tr = T[k] /\ l = 1 /\ why = ""
        /\ LET t == T[k].t
               bv == IF T[k].mode = "enc" THEN ToBitsV(t, T[k].v) ELSE <<>>
               srcs == IF T[k].mode = "enc" THEN Leaves(t, bv) ELSE <<>>
           IN  Start(T[k].mode, t, srcs, IF T[k].mode = "dec" THEN T[k].bytes ELSE <<>>)

Ev == tr.steps[l]
HasEv == l <= Len(tr.steps)
Live == why = "" /\ st = "run"

(* event-bearing actions: the machine's step plus agreement with the next event *)
TEnter ==
    /\ Live /\ Running /\ Op.op \in {"MEnter", "AEnter"}
    /\ Enter
    /\ IF HasEv /\ Ev[1] = (IF Op.op = "MEnter" THEN "M+" ELSE "A+") /\ Ev[2] = i
       THEN why' = "" ELSE why' = ToString(l) \o ":enter"
    /\ l' = l + 1 /\ UNCHANGED <<tid, tr>>

TChunk ==
    /\ Live /\ Running /\ Op.op \in {"Leaf", "Ahead"} /\ j < CurN
    /\ CopyChunk
    /\ IF /\ HasEv /\ Ev[1] = "C" /\ Ev[2] = i /\ Ev[3] = j /\ Ev[4] = NCopy(i, j, CurN)
          /\ Ev[5] = (IF Op.op = "Ahead" THEN <<0 - 1>> ELSE Op.path)
       THEN why' = "" ELSE why' = ToString(l) \o ":chunk"
    /\ l' = l + 1 /\ UNCHANGED <<tid, tr>>

TLeave ==
    /\ Live /\ Running /\ Op.op \in {"MLeave", "ALeave"}
    /\ (LeaveMessage \/ LeaveArray)
    /\ IF HasEv /\ Ev[1] = (IF Op.op = "MLeave" THEN "M-" ELSE "A-") /\ Ev[2] = i'
       THEN why' = "" ELSE why' = ToString(l) \o ":leave"
    /\ l' = l + 1 /\ UNCHANGED <<tid, tr>>

TSilent ==
    /\ Live
    /\ (LeafDone \/ AheadDone \/ Finish)
    /\ UNCHANGED <<tid, tr, l, why>>

(* the end of the run: every event consumed, and the final state is what the call returned *)
TReport ==
    /\ (st # "run" \/ why # "")
    /\ l < 1000000
    /\ LET final == IF why # "" THEN why
                    ELSE IF st = "fault" THEN "machine-fault"
                    ELSE IF l # Len(tr.steps) + 1 THEN ToString(l) \o ":events-left-over"
                    ELSE IF mode = "enc" /\ buf # tr.bytes THEN "final-bytes"
                    ELSE IF mode = "dec" /\ out # Leaves(tr.t, ToBitsV(tr.t, tr.v)) THEN "final-value"
                    ELSE ""
       IN  PrintT("V|" \o ToString(tid) \o "|" \o (IF final = "" THEN "1" ELSE "0") \o "|" \o final)
    /\ l' = 1000000
    /\ UNCHANGED <<tid, tr, why, cvars>>

TNext == TEnter \/ TChunk \/ TLeave \/ TSilent \/ TReport
TSpec == TInit /\ [][TNext]_tvars
=============================================================================
