----------------------------- MODULE WireTrace -----------------------------
(***************************************************************************)
(* Batch trace validation for call-level events (see WireOps!Check).       *)
(* One initial state per recorded trace; one step per event; one verdict   *)
(* line per trace.                                                         *)
(***************************************************************************)
EXTENDS WireOps

VARIABLES tid, tr, l, why
tvars == <<tid, tr, l, why>>

(* The batch is deserialized ONCE (bound by the quantifier) and the trace   *)
(* is carried in a state variable: TLC re-evaluates a JsonDeserialize       *)
(* definition on every reference otherwise.                                 *)
Init ==
    \E T \in {Traces} : \E k \in 1..Len(T) :
        /\ tid = k /\ tr = T[k] /\ l = 1 /\ why = ""

Step ==
    /\ l <= Len(tr.events)
    /\ LET r == Check(tr, tr.events[l])
       IN  why' = IF why = "" /\ r # "" THEN ToString(l) \o ":" \o r ELSE why
    /\ l' = l + 1
    /\ UNCHANGED <<tid, tr>>

Report ==
    /\ l = Len(tr.events) + 1
    /\ PrintT("V|" \o ToString(tid) \o "|" \o (IF why = "" THEN "1" ELSE "0") \o "|" \o why)
    /\ l' = l + 1
    /\ UNCHANGED <<tid, tr, why>>

Next == Step \/ Report
Spec == Init /\ [][Next]_tvars
=============================================================================
