---------------------------- MODULE SessionTrace ----------------------------
(***************************************************************************)
(* Validation of recorded compile sessions against Session!Functional: an  *)
(* observation Observe(key, digest) is enabled iff the job key is new or   *)
(* the digest equals the one first seen for that key -- whatever process,  *)
(* hash seed, working directory, output directory, -q setting or earlier   *)
(* jobs it was made under (those are logged but are not part of the key).  *)
(***************************************************************************)
EXTENDS Naturals, Sequences, TLC, Json, IOUtils

Batch == JsonDeserialize(IOEnv.TRACE_FILE)
Traces == Batch.traces

VARIABLES tid, tr, l, seen, why
tvars == <<tid, tr, l, seen, why>>

Init == \E T \in {Traces} : \E k \in 1..Len(T) :
            /\ tid = k /\ tr = T[k] /\ l = 1 /\ seen = <<>> /\ why = ""

Known(k) == \E x \in 1..Len(seen) : seen[x][1] = k
First(k) == seen[CHOOSE x \in 1..Len(seen) : seen[x][1] = k][2]

Observe ==
    /\ l <= Len(tr.events)
    /\ LET e == tr.events[l] IN
       /\ IF e.ev = "Compile"
          THEN /\ seen' = IF Known(e.key) THEN seen ELSE Append(seen, <<e.key, e.digest>>)
               /\ why' = IF why # "" THEN why
                         ELSE IF e.exit # 0 THEN ToString(l) \o ":compile-failed"
                         ELSE IF Known(e.key) /\ First(e.key) # e.digest
                              THEN ToString(l) \o ":output-differs-for-same-key"
                         ELSE ""
          ELSE /\ seen' = seen      \* Restart: nothing observable changes
               /\ why' = why
    /\ l' = l + 1
    /\ UNCHANGED <<tid, tr>>

Report ==
    /\ l = Len(tr.events) + 1
    /\ PrintT("V|" \o ToString(tid) \o "|" \o (IF why = "" THEN "1" ELSE "0") \o "|" \o why)
    /\ l' = l + 1
    /\ UNCHANGED <<tid, tr, seen, why>>

Next == Observe \/ Report
Spec == Init /\ [][Next]_tvars
=============================================================================
