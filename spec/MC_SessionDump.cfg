SPECIFICATION DSpec
CONSTANTS CacheKeying = "identity"
INVARIANT Dump
INVARIANT Functional
CHECK_DEADLOCK FALSE
