----------------------------- MODULE WireOps ------------------------------
(***************************************************************************)
(* Trace validation front end for the call-level events of the wire        *)
(* family (C01 C02 C03 C05 C06 C07 C14 C16): a batch of traces recorded    *)
(* from the real code is replayed; every event is decided by the Wire      *)
(* functions.  One verdict line per trace, verdicts are total.             *)
(*                                                                         *)
(* Observed / assigned integers are in sign-magnitude form                 *)
(*   << s, m0, m1, ... >>   s = 1 iff negative, magnitude bits LSB first,  *)
(* without leading zeros -- a projection that needs no knowledge of the    *)
(* type on the harness side.                                               *)
(***************************************************************************)
EXTENDS Helpers, Expr, TLC, Json, IOUtils

Batch == JsonDeserialize(IOEnv.TRACE_FILE)
Traces == Batch.traces

(* low n bits of the two's complement of a sign-magnitude number *)
FromSM(sm, n) ==
    With(sm, LAMBDA s :
    With([b \in 1..n |-> IF b + 1 <= Len(s) THEN s[b + 1] ELSE 0], LAMBDA mag :
        IF s[1] = 1 THEN Negate(mag) ELSE mag))

ToSM(bits, signed) ==
    With(bits, LAMBDA x :
        IF signed /\ x[Len(x)] = 1
        THEN <<1>> \o TrimZeros(Negate(x))
        ELSE <<0>> \o TrimZeros(x))

(* the number denoted fits the leaf (C01/C02 precondition "in range") *)
InRange(t, smx) ==
    With(smx, LAMBDA sm :
    With(LeafBits(t), LAMBDA n :
    With(Len(sm) - 1, LAMBDA magLen :
        IF t.k = "int"
        THEN IF sm[1] = 0 THEN magLen <= n - 1
             ELSE \/ magLen <= n - 1
                  \/ (magLen = n /\ \A b \in 2..n : sm[b] = 0)   \* exactly -2^(n-1)
        ELSE sm[1] = 0 /\ magLen <= n)))

RECURSIVE ToBitsV(_, _)
ToBitsV(t, x) ==
    CASE IsLeaf(t) -> FromSM(x, LeafBits(t))
      [] t.k = "alias" -> ToBitsV(t.to, x)
      [] t.k = "array" -> Eager([e \in 1..t.cap |-> ToBitsV(t.elem, x[e])])
      [] t.k = "msg" -> Eager([f \in 1..Len(t.fields) |-> ToBitsV(t.fields[f].t, x[f])])

RECURSIVE ToSMV(_, _)
ToSMV(t, v) ==
    CASE IsLeaf(t) -> ToSM(v, t.k = "int")
      [] t.k = "alias" -> ToSMV(t.to, v)
      [] t.k = "array" -> Eager([e \in 1..t.cap |-> ToSMV(t.elem, v[e])])
      [] t.k = "msg" -> Eager([f \in 1..Len(t.fields) |-> ToSMV(t.fields[f].t, v[f])])

(* BEYOND THE LISTED PROPERTIES: decoding into a target that already holds a value.  The Python runtime ORs   *)
(* every decoded chunk into the field (x |= chunk << shift) and assigns only booleans, so what a leaf holds  *)
(* afterwards is the bitwise OR of what it held and what the wire says (then sign-extended); D14 is the      *)
(* instance of this that a listed property sees (the "old" value being a non-zero enum default).            *)
RECURSIVE OntoV(_, _, _)
OntoV(t, old, new) ==
    CASE t.k = "bool" -> new
      [] IsLeaf(t) -> Eager([b \in 1..Len(new) |-> IF old[b] = 1 \/ new[b] = 1 THEN 1 ELSE 0])
      [] t.k = "alias" -> OntoV(t.to, old, new)
      [] t.k = "array" -> Eager([e \in 1..t.cap |-> OntoV(t.elem, old[e], new[e])])
      [] t.k = "msg" -> Eager([f \in 1..Len(t.fields) |-> OntoV(t.fields[f].t, old[f], new[f])])

RECURSIVE AllInRange(_, _)
AllInRange(t, x) ==
    CASE IsLeaf(t) -> InRange(t, x)
      [] t.k = "alias" -> AllInRange(t.to, x)
      [] t.k = "array" -> Len(x) = t.cap /\ \A e \in 1..t.cap : AllInRange(t.elem, x[e])
      [] t.k = "msg" -> Len(x) = Len(t.fields)
                        /\ \A f \in 1..Len(t.fields) : AllInRange(t.fields[f].t, x[f])

(* sign-magnitude tree of a C memory image tree: leaves are storage bit    *)
(* vectors (8/16/32/64 bits); compare whole storage, sign extended         *)
RECURSIVE StorageV(_, _)
StorageV(t, v) ==
    CASE IsLeaf(t) -> LeafStorage(t, v)
      [] t.k = "alias" -> StorageV(t.to, v)
      [] t.k = "array" -> Eager([e \in 1..t.cap |-> StorageV(t.elem, v[e])])
      [] t.k = "msg" -> Eager([f \in 1..Len(t.fields) |-> StorageV(t.fields[f].t, v[f])])

RECURSIVE TruncV(_, _)
TruncV(t, img) ==
    CASE IsLeaf(t) -> Trunc(t, img)
      [] t.k = "alias" -> TruncV(t.to, img)
      [] t.k = "array" -> Eager([e \in 1..t.cap |-> TruncV(t.elem, img[e])])
      [] t.k = "msg" -> Eager([f \in 1..Len(t.fields) |-> TruncV(t.fields[f].t, img[f])])

(* storage widths per leaf as the spec prescribes *)
RECURSIVE StorageW(_)
StorageW(t) ==
    CASE IsLeaf(t) -> IF t.k = "bool" THEN 8 ELSE StorageBits(LeafBits(t))
      [] t.k = "alias" -> StorageW(t.to)
      [] t.k = "array" -> Eager([e \in 1..t.cap |-> StorageW(t.elem)])
      [] t.k = "msg" -> Eager([f \in 1..Len(t.fields) |-> StorageW(t.fields[f].t)])

(* the layout of a type: the sequence of segments its encoding consists of, *)
(* in wire order -- what C12 says may not change under the listed rewrites   *)
RECURSIVE LayoutSeq(_)
LayoutSeq(t) ==
    CASE IsLeaf(t) -> << <<"leaf", LeafBits(t), t.k = "int">> >>
      [] t.k = "alias" -> LayoutSeq(t.to)
      [] t.k = "array" ->
            With(LayoutSeq(t.elem), LAMBDA e :
                (IF t.ext THEN << <<"ahead", t.cap>> >> ELSE <<>>) \o << <<"repeat", t.cap, e>> >>)
      [] t.k = "msg" ->
            (IF t.ext THEN << <<"ahead", NBits(t)>> >> ELSE <<>>)
            \o FoldLeft(LAMBDA acc, x : acc \o LayoutSeq(t.fields[x].t), <<>>, Order(t.fields))

(* the value domains of the enum leaves of a type, in wire order: a rewrite that makes a field *)
(* denote an enum with other members changed the resolved type, whatever its width           *)
RECURSIVE EnumDomains(_)
EnumDomains(t) ==
    CASE t.k = "enum" -> << IF "vals" \in DOMAIN t THEN {TrimZeros(t.vals[x]) : x \in 1..Len(t.vals)} ELSE {} >>
      [] IsLeaf(t) -> <<>>
      [] t.k = "alias" -> EnumDomains(t.to)
      [] t.k = "array" -> EnumDomains(t.elem)
      [] t.k = "msg" -> FoldLeft(LAMBDA acc, x : acc \o EnumDomains(t.fields[x].t), <<>>, Order(t.fields))

(* ---- C19: what the Go / Python standard-mode output has to say about a message type ---- *)
RECURSIVE GoShape(_)
GoShape(t) ==
    CASE t.k = "bool" -> [g |-> "bool"]
      [] t.k \in {"byte", "uint", "enum"} -> [g |-> "uint", w |-> StorageBits(LeafBits(t))]
      [] t.k = "int" -> [g |-> "int", w |-> StorageBits(LeafBits(t))]
      [] t.k = "alias" -> GoShape(t.to)
      [] t.k = "array" -> [g |-> "array", cap |-> t.cap, elem |-> GoShape(t.elem)]
      [] t.k = "msg" -> [g |-> "struct"]

RECURSIVE ProcTree(_)
ProcTree(t) ==
    CASE t.k \in {"bool", "byte"} -> [p |-> t.k]
      [] t.k \in {"uint", "int", "enum"} -> [p |-> t.k, n |-> t.n]
      [] t.k = "alias" -> [p |-> "alias", to |-> ProcTree(t.to)]
      [] t.k = "array" -> [p |-> "array", ext |-> t.ext, cap |-> t.cap, elem |-> ProcTree(t.elem)]
      [] t.k = "msg" ->
            With(Order(t.fields), LAMBDA ord :
                [p |-> "msg", ext |-> t.ext, nbits |-> NBits(t),
                 fields |-> Eager([x \in 1..Len(ord) |->
                                [num |-> t.fields[ord[x]].num, t |-> ProcTree(t.fields[ord[x]].t)]])])

(* what a field's type bottoms out at, looking through aliases and arrays *)
RECURSIVE Bottom(_, _)
Bottom(t, depth) ==
    CASE t.k = "alias" -> Bottom(t.to, depth)
      [] t.k = "array" -> Bottom(t.elem, depth + 1)
      [] OTHER -> [depth |-> depth, leaf |-> t]

FieldsInOrder(t) == With(Order(t.fields), LAMBDA ord :
                        [x \in 1..Len(ord) |-> [num |-> t.fields[ord[x]].num, name |-> t.fields[ord[x]].name,
                                                t |-> t.fields[ord[x]].t, pos |-> x]])
LeafRows(t) == SelectSeq(FieldsInOrder(t), LAMBDA f : Bottom(f.t, 0).leaf.k # "msg")
MsgRows(t) == SelectSeq(FieldsInOrder(t), LAMBDA f : Bottom(f.t, 0).leaf.k = "msg")
SignRows(t) == SelectSeq(FieldsInOrder(t), LAMBDA f :
                    Bottom(f.t, 0).leaf.k = "int" /\ Bottom(f.t, 0).leaf.n \notin {8, 16, 32, 64})

(* did decoding read outside the buffer anywhere?  (Wire!Rd yields the marker 2 there) *)
RECURSIVE ReadsOutside(_, _)
ReadsOutside(t, v) ==
    CASE IsLeaf(t) -> \E b \in 1..Len(v) : v[b] = 2
      [] t.k = "alias" -> ReadsOutside(t.to, v)
      [] t.k = "array" -> \E e \in 1..t.cap : ReadsOutside(t.elem, v[e])
      [] t.k = "msg" -> \E f \in 1..Len(t.fields) : ReadsOutside(t.fields[f].t, v[f])

(* ---- event guards: each returns "" when the event is explained by the   *)
(* spec, otherwise the name of the failing clause ----                     *)
Check(tr, e) ==
    LET t == IF "t" \in DOMAIN e THEN e.t ELSE tr.t IN
    CASE e.ev = "Encode" ->
            \* value (sign-magnitude tree) -> bytes.  With "raw" the value may be out
            \* of range: only the low n bits of each leaf may matter (C07).
            IF ~("raw" \in DOMAIN e) /\ ~AllInRange(t, e.v) THEN "machinery:value-out-of-range"
            ELSE IF Len(e.bytes) # NBytes(t) THEN "length"
            ELSE LET bv == ToBitsV(t, e.v)
                     w == Enc(t, bv)
                     by == Bytes(w)
                 IN  IF e.bytes # by THEN "bytes" ELSE ""
      [] e.ev = "Decode" ->
            \* bytes -> observed value, by the cursor semantics
            LET w == BitsOf(e.bytes)
                d == Dec(t, w, 0)
                dv == d.v
                obs == ToSMV(t, dv)
            IN  IF obs # e.v THEN "value"
                ELSE IF "expect" \in DOMAIN e /\ e.expect # e.v THEN "roundtrip"
                ELSE ""
      [] e.ev = "DecodeAny" ->
            \* BEYOND THE LISTED PROPERTIES: decoding an arbitrary buffer.  The cursor semantics are
            \* total; a hostile "ahead" can move the cursor past the buffer, and the next read is then
            \* outside it: the Python runtime raises IndexError exactly in that case.
            LET w == BitsOf(e.bytes)
                d == Dec(t, w, 0)
                dv == d.v
            IN  IF ReadsOutside(t, dv)
                THEN IF e.outcome = "IndexError" THEN "" ELSE "expected-read-outside-buffer"
                ELSE IF e.outcome # "value" THEN "unexpected-" \o e.outcome
                ELSE IF ToSMV(t, dv) # e.v THEN "value" ELSE ""
      [] e.ev = "DecodeOnto" ->
            \* informational: the target held e.old (in range) when decode(e.bytes) was called
            LET w == BitsOf(e.bytes)
                d == Dec(t, w, 0)
                exp == OntoV(t, ToBitsV(t, e.old), d.v)
            IN  IF ToSMV(t, exp) # e.v THEN "decode-onto" ELSE ""
      [] e.ev = "ReEncode" ->
            \* re-encoding the decoded message reproduces the bytes
            LET bv == ToBitsV(t, e.v)
                w == Enc(t, bv)
                by == Bytes(w)
            IN  IF e.bytes # by THEN "bytes"
                ELSE IF e.bytes # e.orig THEN "reencode"
                ELSE ""
      [] e.ev = "DecodeEvolved" ->
            \* receiver t decodes what sender e.tS encoded from e.vS
            LET bvS == ToBitsV(e.tS, e.vS)
                w == Enc(e.tS, bvS)
                by == Bytes(w)
                rv == RestrictV(t, e.tS, bvS)
                exp == ToSMV(t, rv)
                wr == BitsOf(e.bytes)
                d == Dec(t, wr, 0)
                dv == d.v
                obs == ToSMV(t, dv)
            IN  IF e.bytes # by THEN "sender-bytes"
                ELSE IF exp # e.v THEN "value"
                ELSE IF obs # e.v THEN "dec"
                ELSE ""
      [] e.ev = "CDecodeEvolved" ->
            \* C receiver t (zeroed struct) decodes what sender e.tS encoded from e.vS
            LET bvS == ToBitsV(e.tS, e.vS)
                w == Enc(e.tS, bvS)
                by == Bytes(w)
                rv == RestrictV(t, e.tS, bvS)
                img == StorageV(t, rv)
            IN  IF e.bytes # by THEN "sender-bytes"
                ELSE IF e.mem # img THEN "mem"
                ELSE ""
      [] e.ev = "Copy" ->
            \* one recorded call BpCopyBufferBits(n, dst, src, di, si): the memory after
            \* the call is what the CCopy machine (LE or BE variant) leaves
            LET s0 == CCInit(e.n, e.di, e.si, BitsOf(e.src), BitsOf(e.dst0))
                s1 == CCRun(s0, e.be)
                plain == BitCopy(BitsOf(e.dst0), BitsOf(e.src), e.n, e.di, e.si)
                got == BitsOf(e.dst1)
            IN  IF got # s1.dst THEN "copy-machine"
                ELSE IF \E p \in 1..Len(got) : (p - 1 >= e.di /\ p - 1 < e.di + e.n) /\ got[p] # plain[p]
                     THEN "copy-bits"
                ELSE IF \E p \in 1..Len(got) : p - 1 < e.di /\ got[p] # plain[p] THEN "copy-clobbers-before"
                ELSE ""
      [] e.ev = "OpBody" ->
            \* one generated optimization-mode function body, decided for all inputs at once
            IF e.branch = "be" /\ e.uses_byte_view THEN "byte-view-in-big-endian-branch"
            \* a Go encoder ORs into s: the buffer has to be a fresh (zeroed) one of exactly the message's size,
            \* allocated by this call -- anything else carries bits of earlier calls
            ELSE IF e.kind = "enc" /\ "buffer" \in DOMAIN e /\ e.buffer.kind # "fresh" THEN "go-encoder-buffer-not-fresh"
            ELSE IF e.kind = "enc" /\ "buffer" \in DOMAIN e /\ e.buffer.n # NBytes(t) THEN "go-encoder-buffer-size"
            ELSE IF e.kind = "enc"
                 THEN LET st == Run(EncState0(t), e.stmts, e.mode)
                      IN  IF st.wire = ExpectedWire(t) THEN ""
                          ELSE IF \E p \in 1..Len(st.wire) : st.wire[p] = Conflict THEN "encoder-mixes-bits"
                          ELSE "encoder-bits"
                 ELSE LET st == Run(DecState0(t, e.zeroed), e.stmts, e.mode)
                      IN  IF st.mem = ExpectedMem(t) THEN ""
                          ELSE IF \E x \in 1..Len(st.mem) : \E b \in 1..Len(st.mem[x]) : st.mem[x][b] = Old
                               THEN "decoder-relies-on-unzeroed-target"
                          ELSE "decoder-bits"
      [] e.ev = "GoEncBuffer" ->
            \* the buffer of a Go optimization-mode encoder alone (large messages, whose bodies are not evaluated)
            IF e.buffer.kind # "fresh" THEN "go-encoder-buffer-not-fresh"
            ELSE IF e.buffer.n # NBytes(t) THEN "go-encoder-buffer-size" ELSE ""
      [] e.ev = "GoStruct" ->
            \* fields in field-number order, each with the smallest covering Go type
            IF e.fields = [x \in 1..Len(t.fields) |-> GoShape(FieldsInOrder(t)[x].t)]
            THEN "" ELSE "go-struct"
      [] e.ev = "Sizes" ->
            IF e.go_const # NBytes(t) THEN "go-size-constant"
            ELSE IF e.go_method # NBytes(t) THEN "go-size-method"
            ELSE IF e.py # NBytes(t) THEN "python-size" ELSE ""
      [] e.ev = "Tree" -> IF e.tree = ProcTree(t) THEN "" ELSE "processor-tree:" \o e.lang
      [] e.ev = "GoRows" ->
            \* byte accessors: for each field number exactly that field, right array depth and conversion
            IF e.set # [x \in 1..Len(LeafRows(t)) |->
                            << LeafRows(t)[x].num, Bottom(LeafRows(t)[x].t, 0).depth, LeafRows(t)[x].pos,
                               GoShape(Bottom(LeafRows(t)[x].t, 0).leaf) >>] THEN "go-set-byte"
            ELSE IF e.get # [x \in 1..Len(LeafRows(t)) |->
                            << LeafRows(t)[x].num, Bottom(LeafRows(t)[x].t, 0).depth, LeafRows(t)[x].pos >>]
                 THEN "go-get-byte"
            ELSE IF e.acc # [x \in 1..Len(MsgRows(t)) |->
                            << MsgRows(t)[x].num, Bottom(MsgRows(t)[x].t, 0).depth, MsgRows(t)[x].pos >>]
                 THEN "go-get-accessor"
            ELSE IF e.sign # [x \in 1..Len(SignRows(t)) |->
                            LET b == Bottom(SignRows(t)[x].t, 0)
                                d == StorageBits(b.leaf.n) - b.leaf.n
                            IN  << SignRows(t)[x].num, b.depth, SignRows(t)[x].pos, d, d >>]
                 THEN "go-sign-extension"
            ELSE ""
      [] e.ev = "GoHelpers" ->
            IF ~MaskOK(e.defs, "getMask") THEN "go-getMask"
            ELSE IF ~NCopyOK(e.defs, "getNbitsToCopy") THEN "go-getNbitsToCopy"
            ELSE IF ~ShiftOK(e.defs, "smartShift") THEN "go-smartShift"
            ELSE IF ~MinOK(e.defs, "min") THEN "go-min"
            ELSE ""
      [] e.ev = "GoSkip" -> IF GoSkipOK(e.defs) THEN "" ELSE "go-skip-formula"
      [] e.ev = "PyHelpers" ->
            IF \E x \in 1..Len(e.mask) : e.mask[x][3] # Mask(e.mask[x][1], e.mask[x][2]) THEN "py-get_mask"
            ELSE IF \E x \in 1..Len(e.ncopy) : e.ncopy[x][4] # NCopy(e.ncopy[x][1], e.ncopy[x][2], e.ncopy[x][3])
                 THEN "py-get_nbits_to_copy"
            ELSE IF \E x \in 1..Len(e.shift) : e.shift[x][3] % 256 # SmartShift(e.shift[x][1], e.shift[x][2]) % 256
                 THEN "py-smart_shift"
            ELSE ""
      [] e.ev = "SameLayout" ->
            LET a == LayoutSeq(e.t1)
                b == LayoutSeq(e.t2)
            IN  IF a # b THEN "skip:rewrite-not-layout-preserving"
                ELSE IF EnumDomains(e.t1) # EnumDomains(e.t2) THEN "skip:rewrite-changes-an-enum-domain"
                ELSE ""
      [] e.ev = "SameBytes" -> IF e.a # e.b THEN "bytes-changed-by-rewrite" ELSE ""
      [] e.ev = "Size" -> IF e.n # NBytes(t) THEN "size" ELSE ""
      [] e.ev = "Json" ->
            LET bv == ToBitsV(t, e.v)
                j == JsonOf(t, bv)
            IN  IF j # e.tree THEN "json" ELSE ""
      [] e.ev = "CEncode" ->
            \* C memory image (storage bit vectors) -> bytes
            IF Len(e.bytes) # NBytes(t) THEN "length"
            ELSE IF "v" \in DOMAIN e /\ e.mem # StorageV(t, ToBitsV(t, e.v))
                 THEN "machinery:harness-image"
            ELSE LET tv == TruncV(t, e.mem)
                     w == Enc(t, tv)
                     by == Bytes(w)
                 IN  IF e.bytes # by THEN "bytes" ELSE ""
      [] e.ev = "CDecode" ->
            \* bytes -> C memory image on a zeroed struct
            LET w == BitsOf(e.bytes)
                d == Dec(t, w, 0)
                dv == d.v
                img == StorageV(t, dv)
            IN  IF e.mem # img THEN "mem" ELSE ""
      [] e.ev = "CWidths" -> IF e.w # StorageW(t) THEN "storage-width" ELSE ""
      [] e.ev = "Raise" -> "raise:" \o e.what
      [] e.ev = "Fault" -> "fault:" \o e.what
      [] OTHER -> "machinery:unknown-event"
=============================================================================
