------------------------------- MODULE DeclUse -------------------------------
(***************************************************************************)
(* The declare-before-use / no-duplicate-declaration / every-import-used   *)
(* discipline generated text has to satisfy (C10), as a state machine over *)
(* the events scanned from one generated file:                             *)
(*   Import(a)   an import / include under qualifier a                     *)
(*   Declare(n)  a declaration of identifier n  (enabled only if n is new) *)
(*   Use(n)      a mention of n   (enabled only if n is declared, builtin  *)
(*               or - when ordered = FALSE, as in Go and in Python         *)
(*               function bodies - declared anywhere in the file)          *)
(*   UseQ(a)     a qualified mention a.x (enabled only if a was imported)  *)
(*   End         enabled only if every import was used                     *)
(***************************************************************************)
EXTENDS Naturals, Sequences, FiniteSets

DUInit(builtins, allDecls, ordered) ==
    [declared |-> {}, imports |-> {}, used |-> {}, builtins |-> builtins, all |-> allDecls,
     ordered |-> ordered, err |-> ""]

DUStep(s, e) ==
    IF s.err # "" THEN s
    ELSE CASE e[1] = "Import" ->
                IF e[2] \in s.imports THEN [s EXCEPT !.err = "duplicate-import:" \o e[2]]
                ELSE [s EXCEPT !.imports = @ \cup {e[2]}]
           [] e[1] = "Declare" ->
                IF e[2] \in s.declared THEN [s EXCEPT !.err = "duplicate-declaration:" \o e[2]]
                ELSE [s EXCEPT !.declared = @ \cup {e[2]}]
           [] e[1] = "Use" ->
                IF e[2] \in s.declared \/ e[2] \in s.builtins \/ (~s.ordered /\ e[2] \in s.all) THEN s
                ELSE [s EXCEPT !.err = "use-of-undeclared:" \o e[2]]
           [] e[1] = "UseQ" ->
                IF e[2] \in s.imports THEN [s EXCEPT !.used = @ \cup {e[2]}]
                ELSE [s EXCEPT !.err = "qualifier-not-imported:" \o e[2]]
           [] e[1] = "End" ->
                IF s.imports \subseteq s.used THEN s
                ELSE [s EXCEPT !.err = "import-not-used:" \o (CHOOSE a \in s.imports : a \notin s.used)]
           [] OTHER -> [s EXCEPT !.err = "machinery:unknown-event"]
=============================================================================
