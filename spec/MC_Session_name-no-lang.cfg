SPECIFICATION Spec
CONSTANTS CacheKeying = "name-no-lang"
INVARIANT Functional
INVARIANT Deterministic
CHECK_DEADLOCK FALSE
