SPECIFICATION TSpec
CONSTANTS SkipVariant = "observed"
CHECK_DEADLOCK FALSE
