-------------------------------- MODULE Naming --------------------------------
(***************************************************************************)
(* The generated-API naming scheme of the C / Go / Python guides, for      *)
(* schemas named as the style guide asks.  A NAME is a sequence of WORDS;  *)
(* a word is a triple << lower, Capitalised, UPPER >> of the same letters  *)
(* (the three spellings are supplied by the harness: TLA+ has no character *)
(* operations).  Identifiers are built by concatenation:                   *)
(*   Pascal(n) = Cap words run together        (messages, enums, aliases)  *)
(*   Snake(n)  = lower words joined by "_"     (fields)                    *)
(*   Upper(n)  = UPPER words joined by "_"     (constants, enum members)   *)
(***************************************************************************)
EXTENDS Naturals, Sequences, SequencesExt

Cat(ss) == FoldLeft(LAMBDA acc, x : acc \o x, "", ss)
Join(ss, sep) == IF ss = <<>> THEN "" ELSE FoldLeft(LAMBDA acc, x : acc \o sep \o x, ss[1], Tail(ss))

Pascal(n) == Cat([x \in 1..Len(n) |-> n[x][2]])
Snake(n) == Join([x \in 1..Len(n) |-> n[x][1]], "_")
Upper(n) == Join([x \in 1..Len(n) |-> n[x][3]], "_")
Flat(ns) == FoldLeft(LAMBDA acc, x : acc \o x, <<>>, ns)        \* words of several names, in order

(* --- C: prefix p (a name, possibly empty), enclosing message names e (outermost first), own name n --- *)
CType(p, e, n) == Pascal(p) \o Cat([x \in 1..Len(e) |-> Pascal(e[x])]) \o Pascal(n)
CMacroPrefix(p) == IF p = <<>> THEN "" ELSE Upper(p) \o "_"
CConst(p, n) == CMacroPrefix(p) \o Upper(n)
CEnumMember(p, e, n) == CMacroPrefix(p) \o (IF e = <<>> THEN "" ELSE Upper(Flat(e)) \o "_") \o Upper(n)
CStruct(p, e, n) == CType(p, e, n)
CEncode(p, e, n) == "Encode" \o CType(p, e, n)
CDecode(p, e, n) == "Decode" \o CType(p, e, n)
CJson(p, e, n) == "Json" \o CType(p, e, n)
CSize(p, e, n) == "BYTES_LENGTH_" \o Upper(p \o Flat(e) \o n)
CField(n) == Snake(n)

(* --- Python --- *)
PyClass(e, n) == Join([x \in 1..Len(e) |-> Pascal(e[x])] \o << Pascal(n) >>, "_")
PyConst(n) == Upper(n)
PyEnumMember(e, n) == (IF e = <<>> THEN "" ELSE Upper(Flat(e)) \o "_") \o Upper(n)
PyField(n) == Snake(n)

(* --- Go (top level; the guides do not fix the spelling of nested Go types) --- *)
GoType(n) == Pascal(n)
GoConst(n) == Upper(n)
GoField(n) == Pascal(n)
GoJsonTag(n) == Snake(n)
GoSize(e, n) == "BYTES_LENGTH_" \o Upper(Flat(e) \o n)

(* output file base name: the schema FILE's base name plus _bp *)
OutBase(fileBase) == fileBase \o "_bp"

(* the schema file's base name from the file name as written: the name split at its dots; only the LAST  *)
(* part is the extension (os.path.splitext), a name without a dot has none                               *)
RECURSIVE JoinDots(_)
JoinDots(parts) == IF Len(parts) = 1 THEN parts[1] ELSE parts[1] \o "." \o JoinDots(Tail(parts))
FileBaseOf(parts) == IF Len(parts) >= 2 THEN JoinDots(SubSeq(parts, 1, Len(parts) - 1)) ELSE parts[1]
=============================================================================
