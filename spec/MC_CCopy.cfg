SPECIFICATION Spec
CONSTANTS MaxN = 80
INVARIANT Refines
INVARIANT Containment
INVARIANT Footprint
PROPERTY Progress
PROPERTY Terminates
CHECK_DEADLOCK FALSE
