------------------------------- MODULE Helpers -------------------------------
(***************************************************************************)
(* A numeric evaluator for the bodies of the Go runtime's pure helpers     *)
(* (getMask, getNbitsToCopy, smartShift, min), parsed by the harness into  *)
(* small ASTs, so that TLC can compare them with Wire!Mask / NCopy /       *)
(* SmartShift over their whole argument domain (C19).                      *)
(*   expression: [n |-> "num", v] [n |-> "var", name] [n |-> "bin", op, a, b]  *)
(*               [n |-> "call", f, args]                                   *)
(*   body: sequence of [s |-> "if", c, ret] / [s |-> "ret", e]             *)
(***************************************************************************)
EXTENDS Wire

RECURSIVE HEval(_, _, _), HRun(_, _, _, _)
HEval(e, env, defs) ==
    CASE e.n = "num" -> e.v
      [] e.n = "var" -> env[e.name]
      [] e.n = "call" ->
            LET f == defs[e.f]
                args == [x \in 1..Len(e.args) |-> HEval(e.args[x], env, defs)]
            IN  HRun(f.body, 1, [x \in {f.params[y] : y \in 1..Len(f.params)} |->
                                    args[CHOOSE y \in 1..Len(f.params) : f.params[y] = x]], defs)
      [] e.n = "bin" ->
            With(HEval(e.a, env, defs), LAMBDA x : With(HEval(e.b, env, defs), LAMBDA y :
                CASE e.op = "+" -> x + y [] e.op = "-" -> x - y [] e.op = "*" -> x * y
                  [] e.op = "%" -> x % y [] e.op = "/" -> x \div y
                  [] e.op = "<<" -> x * Pow2(y) [] e.op = ">>" -> x \div Pow2(y)
                  [] e.op = "<" -> IF x < y THEN 1 ELSE 0 [] e.op = ">" -> IF x > y THEN 1 ELSE 0
                  [] e.op = "<=" -> IF x <= y THEN 1 ELSE 0 [] e.op = ">=" -> IF x >= y THEN 1 ELSE 0
                  [] e.op = "==" -> IF x = y THEN 1 ELSE 0))
HRun(body, pc, env, defs) ==
    IF pc > Len(body) THEN -99999
    ELSE IF body[pc].s = "ret" THEN HEval(body[pc].e, env, defs)
    ELSE IF HEval(body[pc].c, env, defs) # 0 THEN HEval(body[pc].ret, env, defs)
    ELSE HRun(body, pc + 1, env, defs)

Call(defs, name, args) ==
    LET f == defs[name]
    IN  HRun(f.body, 1, [x \in {f.params[y] : y \in 1..Len(f.params)} |->
                            args[CHOOSE y \in 1..Len(f.params) : f.params[y] = x]], defs)

(* the whole domains on which the runtimes call the helpers *)
MaskOK(defs, name) == \A k \in 0..7 : \A c \in 1..(8 - k) : Call(defs, name, <<k, c>>) = Mask(k, c)
NCopyOK(defs, name) ==
    \A i \in 0..15 : \A n \in 1..64 : \A j \in 0..(n - 1) : Call(defs, name, <<i, j, n>>) = NCopy(i, j, n)
(* results are bytes in Go and unbounded integers in Python: compared as bytes *)
ShiftOK(defs, name) ==
    \A b \in 0..255 : \A k \in (0 - 7)..7 : Call(defs, name, <<b, k>>) % 256 = SmartShift(b, k) % 256
(* C05 for Go: the post-decode skip targets read from lib/go/bitproto.go are the specified ones *)
(* (array: start + 16 + ahead * bits one element occupied; message: start + ahead)           *)
GoSkipOK(defs) ==
    /\ \A start \in 0..9 : \A cap \in 1..4 : \A eobs \in 0..9 : \A ahead \in 0..6 :
            Call(defs, "arraySkip", <<start, start + 16 + cap * eobs, ahead, cap>>) = start + 16 + ahead * eobs
    /\ \A start \in 0..9 : \A ahead \in 0..40 : Call(defs, "messageSkip", <<start, ahead>>) = start + ahead
MinOK(defs, name) == \A a \in (0 - 8)..70 : \A b \in (0 - 8)..70 : Call(defs, name, <<a, b>>) = Min2(a, b)
=============================================================================
