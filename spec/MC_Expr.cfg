SPECIFICATION Spec
INVARIANT Precedence
INVARIANT LeftAssociative
INVARIANT Parentheses
INVARIANT References
INVARIANT Errors
CHECK_DEADLOCK FALSE
