----------------------------- MODULE MC_CopyLoop -----------------------------
(***************************************************************************)
(* Bridge between CopyLoop (proved for every n and i0 by Apalache) and the *)
(* modules TLC runs: the chunk formula of CopyLoop is Wire!NCopy, the one  *)
(* Codec!CopyChunk takes and that C19 binds to get_nbits_to_copy (bp.py)   *)
(* and getNbitsToCopy (bitproto.go).                                       *)
(***************************************************************************)
EXTENDS Wire

CL == INSTANCE CopyLoop WITH i0 <- 0, n <- 0, i <- 0, j <- 0

SameFormula ==
    \A ii \in 0..40 : \A nn \in 1..70 : \A jj \in 0..(nn - 1) :
        CL!ChunkOf(ii, jj, nn) = NCopy(ii, jj, nn)
ASSUME SameFormula

VARIABLE x
Init == x = 0
Next == UNCHANGED x
=============================================================================
