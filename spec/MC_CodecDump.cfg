INIT DInit
NEXT DNext
CONSTANTS Depth = 1
          Caps = {1, 2}
          LeafSet = "small"
          EvoSteps = 1
          Modes = {"enc"}
          RawPad = 0
          SkipVariant = "observed"
CHECK_DEADLOCK FALSE
