--------------------------- MODULE MC_CompilerDump ---------------------------
(***************************************************************************)
(* Direction spec -> code for the front end: TLC writes every complete     *)
(* program of MC_Compiler's menu and prints it together with what the      *)
(* machine decided (verdict, rejection kind, the resolved references); the *)
(* harness renders each program to text, runs the real parser on it and    *)
(* compares.  One line per complete program:  P|<json>                     *)
(***************************************************************************)
EXTENDS MC_Compiler, Json, TLC

RECURSIVE AmbRun(_)
AmbRun(cs) == IF cs.status # "run" THEN FALSE
              ELSE NextDeclAmbiguous(cs) \/ With(CStep(cs), LAMBDA c2 : AmbRun(c2))

Row == [ds |-> ds, amb |-> AmbRun(CInit(Files, 1, FALSE)), st |-> Result.status,
        kind |-> IF Result.status = "rejected" THEN Result.err.kind ELSE "",
        eline |-> IF Result.status = "rejected" THEN << Result.err.l1, Result.err.l2 >> ELSE << 0, 0 >>,
        refs |-> [r \in 1..Len(Result.refs) |->
                    << Result.refs[r].line, Result.refs[r].path, Result.refs[r].dline >>]]

Dump == Complete => PrintT("P|" \o ToJson(Row))
=============================================================================
