SPECIFICATION Spec
INVARIANT StepBound
CHECK_DEADLOCK FALSE
