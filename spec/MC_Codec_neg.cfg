SPECIFICATION Spec
CONSTANTS
  Depth = 1
  Caps = {1, 5}
  LeafSet = "small"
  EvoSteps = 1
  Modes = {"enc", "dec"}
  RawPad = 3
  SkipVariant = "impl-old"
INVARIANT InBounds
INVARIANT EncRefines
INVARIANT DecRefines
INVARIANT WireRoundTrip
INVARIANT ChunkShape
PROPERTY OnlyOwnSlot
CHECK_DEADLOCK FALSE
