------------------------------ MODULE CopyLoop ------------------------------
(***************************************************************************)
(* The chunk arithmetic shared by every runtime's bit copier (bp.py        *)
(* get_nbits_to_copy / process_base_type, BpEndecodeBaseType, the Go       *)
(* runtime and the compile-time plan of optimization mode): a value of n   *)
(* bits is copied to / from stream position i0 in chunks of                *)
(*     c = min(n - j, 8 - i mod 8, 8 - j mod 8)                            *)
(* bits, where j counts the bits of the value done.  Codec.tla uses the    *)
(* same step (CopyChunk) on bounded instances; here the claim is proved    *)
(* for EVERY n and i0 by an inductive invariant (Apalache, no bound):      *)
(*   - every chunk has at least one bit (progress) and lies inside one     *)
(*     byte of the stream and inside one byte of the value (ChunkShape);   *)
(*   - the chunks tile [0, n): i = i0 + j throughout and j never passes n. *)
(***************************************************************************)
EXTENDS Integers

VARIABLES
    \* @type: Int;
    i0,
    \* @type: Int;
    n,
    \* @type: Int;
    i,
    \* @type: Int;
    j

\* @type: <<Int, Int, Int, Int>>;
vars == <<i0, n, i, j>>

Min3(a, b, c) == IF a <= b THEN (IF a <= c THEN a ELSE c) ELSE (IF b <= c THEN b ELSE c)
ChunkOf(ii, jj, nn) == Min3(nn - jj, 8 - (ii % 8), 8 - (jj % 8))
Chunk == ChunkOf(i, j, n)

Init ==
    /\ i0 \in Nat /\ n \in Nat
    /\ i = i0 /\ j = 0

Step ==
    /\ j < n
    /\ i' = i + Chunk
    /\ j' = j + Chunk
    /\ UNCHANGED <<i0, n>>

Next == Step
Spec == Init /\ [][Next]_vars

(* the inductive invariant *)
IndInv ==
    /\ i0 \in Nat /\ n \in Nat /\ i \in Nat /\ j \in Nat
    /\ j <= n
    /\ i = i0 + j

(* what it buys, stated on the step about to be taken *)
ChunkShape ==
    (j < n) => /\ Chunk >= 1
               /\ (i % 8) + Chunk <= 8
               /\ (j % 8) + Chunk <= 8
               /\ j + Chunk <= n

(* an action invariant: every step makes progress and never passes the end (termination: n - j is a *)
(* natural number that strictly decreases)                                                          *)
StepProgress == (j' > j) /\ (j' <= n) /\ (n - j' < n - j)

(* for the inductive check: any state satisfying the invariant *)
IndInit == IndInv
Safety == IndInv /\ ChunkShape
=============================================================================
