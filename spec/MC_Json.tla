------------------------------- MODULE MC_Json -------------------------------
(***************************************************************************)
(* Design-level check of Wire!JsonOf over a small universe: the JSON tree  *)
(* determines the value (two different values of one type never print the  *)
(* same JSON), keys come in field-number order, every number is in the     *)
(* range of its leaf.                                                      *)
(***************************************************************************)
EXTENDS Wire

U3 == [k |-> "uint", n |-> 3]
I3 == [k |-> "int", n |-> 3]
Leafs == {[k |-> "bool"], U3, I3, [k |-> "enum", n |-> 2, name |-> "E"]}
Arr(x) == [k |-> "array", ext |-> FALSE, cap |-> 2, elem |-> x]
Msg2(a, b) == [k |-> "msg", name |-> "M", ext |-> FALSE,
               fields |-> << [num |-> 7, name |-> "second", t |-> b], [num |-> 2, name |-> "first", t |-> a] >>]
Inner == {Msg2(a, b) : a \in {U3, I3}, b \in {[k |-> "bool"]}}
Tops == {Msg2(a, b) : a \in Leafs \cup {Arr(I3)} \cup Inner, b \in Leafs \cup {Arr([k |-> "bool"])}}

RECURSIVE AllValues(_)
AllValues(t) ==
    CASE IsLeaf(t) -> [1..LeafBits(t) -> {0, 1}]
      [] t.k = "alias" -> AllValues(t.to)
      [] t.k = "array" -> [1..t.cap -> AllValues(t.elem)]
      [] t.k = "msg" -> {<<a, b>> : a \in AllValues(t.fields[1].t), b \in AllValues(t.fields[2].t)}

VARIABLES t, v
Init == t \in Tops /\ v \in AllValues(t)
Next == UNCHANGED <<t, v>>
Spec == Init /\ [][Next]_<<t, v>>

(* magnitude of a JSON number as an integer (small here) *)
MagNum(j) == FoldLeft(LAMBDA acc, b : acc + j.mag[b] * Pow2(b - 1), 0, [b \in 1..Len(j.mag) |-> b])

JsonStatesValue ==
    LET j == JsonOf(t, v) IN
    /\ j.j = "o"
    /\ Len(j.kv) = 2
    /\ j.kv[1][1] = "first" /\ j.kv[2][1] = "second"          \* field-number order (2 before 7)
    /\ \A w \in AllValues(t) : (JsonOf(t, w) = j) => w = v      \* JSON determines the value
    /\ LET f == j.kv[1][2] IN
         (f.j = "n") =>
            /\ (t.fields[2].t.k = "uint" => ~f.neg /\ MagNum(f) <= 7)
            /\ (t.fields[2].t.k = "int" => IF f.neg THEN MagNum(f) \in 1..4 ELSE MagNum(f) <= 3)
            /\ (f.mag # <<>> => f.mag[Len(f.mag)] = 1)           \* canonical magnitude
=============================================================================
