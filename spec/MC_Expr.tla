------------------------------- MODULE MC_Expr -------------------------------
(***************************************************************************)
(* Design-level check of Compiler!EvalCalc (precedence climbing over a     *)
(* token list) against ordinary arithmetic written directly in TLA+, on    *)
(* expression templates that pin down each clause of C13: * and / bind     *)
(* tighter than + and -, operators associate to the left, parentheses      *)
(* group, / is integer division, a reference denotes the constant's value. *)
(***************************************************************************)
EXTENDS Compiler

Lits == {0, 1, 2, 3, 7, 10, 16, 255}
I(v) == <<"int", v>>
O(o) == <<"op", o>>
LP == <<"lp">>
RP == <<"rp">>
R(p) == <<"ref", p>>

(* a compiler state in which N = 7 and lib.K = 3 are visible integer constants, S a string *)
Env ==
    LET cs0 == CInit(<< [name |-> "main", decls |-> <<>>] >>, 1, FALSE)
        c(v) == [k |-> "const", vt |-> "int", v |-> v, name |-> "x", file |-> "main", line |-> 1]
        lib == [k |-> "proto", name |-> "lib", file |-> "lib", line |-> 1,
                members |-> << [name |-> "K", def |-> c(3)] >>]
    IN  [cs0 EXCEPT !.scopes = << [@[1] EXCEPT !.members =
            << [name |-> "N", def |-> c(7)], [name |-> "lib", def |-> lib],
               [name |-> "S", def |-> [k |-> "const", vt |-> "str", v |-> <<65>>, name |-> "S",
                                       file |-> "main", line |-> 2]] >>] >>]

Ev(toks) == EvalCalc(Env, toks)
Val(toks) == Ev(toks).v
Ok(toks) == Ev(toks).ok

VARIABLES a, b, c
Init == a \in Lits /\ b \in Lits /\ c \in Lits
Next == UNCHANGED <<a, b, c>>
Spec == Init /\ [][Next]_<<a, b, c>>

Div(x, y) == x \div y

Precedence ==
    /\ Val(<<I(a), O("+"), I(b), O("*"), I(c)>>) = a + (b * c)
    /\ Val(<<I(a), O("*"), I(b), O("+"), I(c)>>) = (a * b) + c
    /\ (c # 0) => Val(<<I(a), O("+"), I(b), O("/"), I(c)>>) = a + Div(b, c)
    /\ (b # 0) => Val(<<I(a), O("/"), I(b), O("+"), I(c)>>) = Div(a, b) + c
    /\ (a >= b * c) => Val(<<I(a), O("-"), I(b), O("*"), I(c)>>) = a - (b * c)

LeftAssociative ==
    /\ (a >= b /\ a - b >= c) => Val(<<I(a), O("-"), I(b), O("-"), I(c)>>) = (a - b) - c
    /\ (b # 0 /\ c # 0) => Val(<<I(a), O("/"), I(b), O("/"), I(c)>>) = Div(Div(a, b), c)
    /\ (c # 0) => Val(<<I(a), O("*"), I(b), O("/"), I(c)>>) = Div(a * b, c)
    /\ (b # 0) => Val(<<I(a), O("/"), I(b), O("*"), I(c)>>) = Div(a, b) * c
    /\ (a >= b) => Val(<<I(a), O("-"), I(b), O("+"), I(c)>>) = (a - b) + c

Parentheses ==
    /\ Val(<<LP, I(a), O("+"), I(b), RP, O("*"), I(c)>>) = (a + b) * c
    /\ Val(<<I(a), O("*"), LP, I(b), O("+"), I(c), RP>>) = a * (b + c)
    /\ (b + c # 0) => Val(<<I(a), O("/"), LP, I(b), O("+"), I(c), RP>>) = Div(a, b + c)
    /\ (b >= c /\ a >= b - c) => Val(<<I(a), O("-"), LP, I(b), O("-"), I(c), RP>>) = a - (b - c)
    /\ Val(<<LP, LP, I(a), RP, RP>>) = a

References ==
    /\ Val(<<R(<<"N">>), O("*"), I(a), O("+"), R(<<"lib", "K">>)>>) = 7 * a + 3
    /\ ~Ok(<<R(<<"S">>), O("+"), I(a)>>) /\ Ev(<<R(<<"S">>), O("+"), I(a)>>).why = "calc-non-integer"
    /\ ~Ok(<<R(<<"Nope">>), O("+"), I(a)>>) /\ Ev(<<R(<<"Nope">>), O("+"), I(a)>>).why = "undefined-constant"
    /\ ~Ok(<<R(<<"lib">>), O("+"), I(a)>>) /\ Ev(<<R(<<"lib">>), O("+"), I(a)>>).why = "not-constant"

Errors ==
    /\ ~Ok(<<I(a), O("/"), I(0)>>) /\ Ev(<<I(a), O("/"), I(0)>>).why = "division-by-zero"
    /\ ~Ok(<<I(a), O("+")>>) /\ ~Ok(<<LP, I(a)>>) /\ ~Ok(<<I(a), RP>>) /\ ~Ok(<<I(a), I(b)>>) /\ ~Ok(<<>>)
=============================================================================
