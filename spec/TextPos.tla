------------------------------ MODULE TextPos ------------------------------
(***************************************************************************)
(* Line / column / indent bookkeeping, independent of the parser's         *)
(* (parser.py:142-150, 256-265, 762-767).  A line of a file is a sequence  *)
(* of layout tokens <<"s", n>> (n blanks) and <<"w", n>> (a word of n      *)
(* characters).  A machine (col) walks the tokens of a line; the k-th word *)
(* starts at column 1 + everything before it.                              *)
(***************************************************************************)
EXTENDS Types

(* 1-based column at which the k-th word (k >= 1) of a line starts *)
WordCol(toks, k) ==
    LET RECURSIVE Walk(_, _, _)
        Walk(i, col, seen) ==
            IF i > Len(toks) THEN 0
            ELSE IF toks[i][1] = "w"
                 THEN IF seen + 1 = k THEN col ELSE Walk(i + 1, col + toks[i][2], seen + 1)
                 ELSE Walk(i + 1, col + toks[i][2], seen)
    IN  Walk(1, 1, 0)

(* indent the parser records for a declaration that starts a line:         *)
(* characters before its first token; -1 on the very first line of a file  *)
(* when nothing precedes the token (lexpos 0)                              *)
Indent(toks, lineno) ==
    LET c == WordCol(toks, 1) - 1 IN IF lineno = 1 /\ c = 0 THEN -1 ELSE c

(* Comment attachment (parser.py: push_comment / clear_comment_block /     *)
(* collect_comment_block): comment lines accumulate, every NEWLINE unit -- *)
(* a blank line, and the line end after any declaration or bracket --      *)
(* clears them, a declaration collects what is pending.  Hence a           *)
(* definition owns exactly the comment lines that stand immediately above  *)
(* it.  kinds[x] is "c" (comment line), "b" (blank) or "o" (anything else).*)
RECURSIVE CommentsAbove(_, _)
CommentsAbove(kinds, line) ==
    IF line <= 1 \/ kinds[line - 1] # "c" THEN 0 ELSE 1 + CommentsAbove(kinds, line - 1)

(* the style guide: a declaration nested d scopes deep is indented 4*d     *)
IndentConforms(toks, lineno, depth) ==
    LET i == Indent(toks, lineno) IN i <= 0 \/ i = 4 * depth
=============================================================================
