"""Evidence files, known findings, VIOLATION lines and replay files."""
import json
import os
import time

from . import common

FINDINGS_FILE = os.path.join(common.VERIF, "known_findings.json")


def load_findings():
    with open(FINDINGS_FILE) as f:
        return json.load(f)


class Report:
    def __init__(self, pid, tier, level="model_checking"):
        self.pid = pid
        self.tier = tier
        self.level = level
        self.t0 = time.time()
        self.cov = {
            "states": 0, "transitions": 0, "traces_validated_against_impl": 0,
            "samples": [], "evaluations": 0, "distinct_nontrivial": 0, "rule": "",
            "tlc_runs": [], "exhaustive": False,
        }
        self.assumptions = []
        self.nviol = 0
        self.known_lines = {}
        self.findings = [f for f in load_findings().get("findings", [])
                         if f.get("status") == "known" and pid in f.get("properties", [])]
        self._distinct = set()
        self._printed_violations = 0

    # ---- coverage bookkeeping ----
    def add_tlc(self, r, label, constants=None):
        self.cov["states"] += r.states
        self.cov["transitions"] += r.generated
        run = {"label": label, "distinct_states": r.states, "states_generated": r.generated,
               "depth": r.depth, "wall_s": round(r.wall, 2)}
        if constants:
            run["constants"] = constants
        if r.coverage:
            run["action_coverage"] = r.coverage
        self.cov["tlc_runs"].append(run)

    def sample(self, s, limit=4):
        if len(self.cov["samples"]) < limit:
            self.cov["samples"].append(s)

    def distinct(self, key, nontrivial=True):
        if nontrivial:
            self._distinct.add(key)

    def count(self, name, n=1):
        self.cov[name] = self.cov.get(name, 0) + n

    def feature(self, name, n=1):
        fc = self.cov.setdefault("feature_counts", {})
        fc[name] = fc.get(name, 0) + n

    # ---- outcomes ----
    def known_signatures(self):
        return {f["signature"]: f for f in self.findings}

    def classify(self, sigs):
        """Returns the finding matched by one of the signature names that hold, or None."""
        ks = self.known_signatures()
        for s in sigs:
            if s in ks:
                return ks[s]
        return None

    def known(self, finding, detail):
        key = finding["id"]
        n, first = self.known_lines.get(key, (0, None))
        self.known_lines[key] = (n + 1, first or detail)

    def violation(self, case, why):
        self.nviol += 1
        os.makedirs(common.REPLAYS, exist_ok=True)
        k = 0
        while True:
            path = os.path.join(common.REPLAYS, "%s-%d.json" % (self.pid, k))
            if not os.path.exists(path):
                break
            k += 1
        with open(path, "w") as f:
            json.dump({"property": self.pid, "why": why, "seed": common.seed(), "tier": self.tier, "case": case},
                      f, indent=1, default=str)
        if self._printed_violations < 20:
            print("VIOLATION property=%s replay=%s" % (self.pid, path))
            print("  why: %s" % (why[:500],))
            self._printed_violations += 1
        return path

    def decide(self, case, why, sigs):
        """A failing case: a listed known finding, or a violation."""
        f = self.classify(sigs)
        if f is not None:
            self.known(f, why)
            return "known"
        self.violation(case, why)
        return "violation"

    def finish(self):
        for fid, (n, first) in sorted(self.known_lines.items()):
            f = [x for x in self.findings if x["id"] == fid][0]
            print("KNOWN-FINDING: property=%s %s %s (%d occurrence(s) this run; e.g. %s)"
                  % (self.pid, fid, f["what"], n, (first or "")[:200]))
        self.cov["distinct_nontrivial"] = len(self._distinct)
        self.cov["known_finding_occurrences"] = {k: v[0] for k, v in self.known_lines.items()}
        ev = {
            "property_id": self.pid,
            "tier": self.tier,
            "seed": common.seed(),
            "level": self.level,
            "coverage": self.cov,
            "assumptions": self.assumptions,
            "wall_s": round(time.time() - self.t0, 2),
            "violations": self.nviol,
        }
        os.makedirs(common.EVIDENCE, exist_ok=True)
        with open(os.path.join(common.EVIDENCE, "%s.json" % self.pid), "w") as f:
            json.dump(ev, f, indent=1, default=str)
        print("%s %s: %d evaluations, %d distinct non-trivial, TLC %d states / %d transitions, "
              "%d traces validated, %d violation(s), %.1fs"
              % (self.pid, self.tier, self.cov["evaluations"], self.cov["distinct_nontrivial"],
                 self.cov["states"], self.cov["transitions"],
                 self.cov["traces_validated_against_impl"], self.nviol, time.time() - self.t0))
        return 1 if self.nviol else 0
