"""The two permitted schema evolution steps of C05, applied to a program and its intended
resolved type together (the type nodes carry links to their declarations)."""
import copy

from . import gen


def ext_nodes(t, acc=None, seen=None, anc=()):
    """All extensible message / array nodes of a resolved type (distinct objects), with the
    chain of extensible ancestors."""
    acc = acc if acc is not None else []
    seen = seen if seen is not None else set()
    k = t["k"]
    if gen.is_leaf(t):
        return acc
    if k == "alias":
        return ext_nodes(t["to"], acc, seen, anc)
    mine = anc
    if t.get("ext") and id(t) not in seen:
        seen.add(id(t))
        acc.append((t, anc))
    if t.get("ext"):
        mine = anc + (id(t),)
    if k == "array":
        ext_nodes(t["elem"], acc, seen, mine)
    else:
        for f in t["fields"]:
            ext_nodes(f["t"], acc, seen, mine)
    return acc


def new_field_type(rng):
    r = rng.random()
    if r < 0.3:
        return {"k": "bool"}, {"k": "bool"}
    if r < 0.45:
        return {"k": "byte"}, {"k": "byte"}
    n = rng.choice([1, 3, 7, 8, 9, 13, 16, 17, 31, 32, 33, 64])
    k = "uint" if rng.random() < 0.6 else "int"
    base = {"k": k, "n": n}
    if r < 0.8:
        return dict(base), dict(base)
    cap = rng.choice([1, 2, 3, 5])
    ext = rng.random() < 0.5
    te = {"k": "array", "elem": dict(base), "cap": gen.lit(cap), "ext": ext}
    return te, {"k": "array", "ext": ext, "cap": cap, "elem": dict(base), "_texpr": te}


def evolve_once(prog, rng, prefer=None, max_bits=60000):
    """Applies one permitted step in place.  Returns a description or None if impossible."""
    t = prog["rtype"]
    nodes = ext_nodes(t)
    if not nodes:
        return None
    if prefer is not None and rng.random() < 0.6:
        panc = ()
        for n, a in nodes:
            if id(n) == prefer:
                panc = a
        rel = [(n, a) for n, a in nodes if prefer in a or id(n) == prefer or id(n) in panc]
        if rel:
            nodes = rel
    for _ in range(8):
        node, anc = rng.choice(nodes)
        if node["k"] == "msg":
            nums = [f["num"] for f in node["fields"]]
            nxt = (max(nums) if nums else 0) + rng.choice([1, 1, 2, 7])
            if nxt > 255:
                continue
            te, rt = new_field_type(rng)
            name = "n_" + gen.letters(len(node["fields"]))
            if any(f["name"] == name for f in node["fields"]):
                name = "n_%s_%d" % (gen.letters(len(node["fields"])), nxt)
            node["fields"].append({"num": nxt, "name": name, "t": rt})
            node["_decl"]["body"].append({"d": "field", "name": name, "num": nxt, "t": te})
            step = ("AppendField", node["name"], nxt)
        else:
            delta = rng.choice([1, 1, 2, 3, 5])
            if node["cap"] + delta > 65535:
                continue
            node["cap"] += delta
            node["_texpr"]["cap"] = gen.lit(node["cap"])
            step = ("GrowArray", node["cap"] - delta, node["cap"])
        if gen.steer_nbits(t) > max_bits:
            # undo is awkward on shared nodes: callers work on a deep copy and drop it
            return "too-big"
        return step + (id(node),)
    return None


def chain(prog, rng, steps):
    """Returns [prog_1 (= copy of prog), prog_2, ...] each obtained from the previous by one
    permitted step (deep copies; internal sharing and declaration links are preserved)."""
    versions = [copy.deepcopy(prog)]
    prefer = None
    descr = []
    for _ in range(steps):
        nxt = copy.deepcopy(versions[-1])
        if prefer is not None:
            # ids change under deepcopy: re-find the preferred node by position
            old_nodes = [id(n) for n, _ in ext_nodes(versions[-1]["rtype"])]
            new_nodes = [id(n) for n, _ in ext_nodes(nxt["rtype"])]
            prefer = dict(zip(old_nodes, new_nodes)).get(prefer)
        r = evolve_once(nxt, rng, prefer)
        if r is None or r == "too-big":
            break
        prefer = r[-1]
        descr.append(r[:-1])
        versions.append(nxt)
    return versions, descr
