"""Structural reading of Go standard-mode output and of the Go runtime's helper functions (C19).
Go is never executed: the text is projected into neutral trees that the specification decides."""
import re


class GoParseError(Exception):
    pass


def split_args(s):
    """Splits a comma separated argument list at depth 0."""
    out, depth, cur = [], 0, ""
    for ch in s:
        if ch in "([{":
            depth += 1
        elif ch in ")]}":
            depth -= 1
        if ch == "," and depth == 0:
            out.append(cur.strip())
            cur = ""
        else:
            cur += ch
    if cur.strip():
        out.append(cur.strip())
    return out


class GoFile:
    def __init__(self, text, imports=None):
        self.text = text
        self.imports = imports or {}       # package alias -> GoFile

    def named_type(self, name):
        """('basic', text) | ('array', cap, elemtext) | ('struct',) for `type name ...`."""
        m = re.search(r"^type %s (.+?)(?:\s*//.*)?$" % re.escape(name), self.text, re.M)
        if not m:
            raise GoParseError("type %s not declared" % name)
        t = m.group(1).strip()
        if t.startswith("struct"):
            return ("struct",)
        return ("text", t)

    def resolve(self, name):
        """(GoFile, local name) of a possibly package-qualified type name."""
        if "." in name:
            pkg, local = name.split(".", 1)
            if pkg not in self.imports:
                raise GoParseError("package %s not imported" % pkg)
            return self.imports[pkg], local
        return self, name

    def shape(self, t):
        """Neutral shape of a Go type text, named types resolved to what they are declared as."""
        t = t.strip()
        m = re.fullmatch(r"\[(\d+)\](.+)", t)
        if m:
            return {"g": "array", "cap": int(m.group(1)), "elem": self.shape(m.group(2))}
        if t == "bool":
            return {"g": "bool"}
        if t == "byte":
            return {"g": "uint", "w": 8}
        m = re.fullmatch(r"(u?)int(8|16|32|64)", t)
        if m:
            return {"g": "uint" if m.group(1) else "int", "w": int(m.group(2))}
        f, local = self.resolve(t)
        nt = f.named_type(local)
        if nt[0] == "struct":
            return {"g": "struct"}
        return f.shape(nt[1])

    def struct_fields(self, name):
        m = re.search(r"^type %s struct \{\n(.*?)^\}" % re.escape(name), self.text, re.M | re.S)
        if not m:
            raise GoParseError("struct %s not found" % name)
        out = []
        for line in m.group(1).splitlines():
            mm = re.match(r'^\t(\w+) (.+?) `json:"(\w+)"`', line)
            if mm:
                out.append((mm.group(1), mm.group(2), mm.group(3)))
            elif line.strip() and not line.strip().startswith("//"):
                raise GoParseError("struct line: " + line)
        return out

    def size_const(self, cname):
        m = re.search(r"^const BYTES_LENGTH_%s uint32 = (\d+)" % re.escape(cname), self.text, re.M)
        return int(m.group(1)) if m else None

    def size_method(self, name):
        m = re.search(r"^func \(m \*%s\) Size\(\) uint32 \{ return (\d+) \}" % re.escape(name), self.text, re.M)
        return int(m.group(1)) if m else None

    # ---- processor trees ----
    def proc_of_named(self, name, pointer):
        f, local = self.resolve(name)
        if pointer:
            return f.msg_proc(local)
        m = re.search(r"^func \(m %s\) BpProcessor\(\) bp\.Processor \{\n\treturn (.+)\n\}" % re.escape(local),
                      f.text, re.M)
        if not m:
            raise GoParseError("BpProcessor of %s not found" % name)
        return f.proc(m.group(1))

    def proc(self, e):
        e = e.strip()
        if e == "bp.NewBool()":
            return {"p": "bool"}
        if e == "bp.NewByte()":
            return {"p": "byte"}
        m = re.fullmatch(r"bp\.New(Uint|Int)\((\d+)\)", e)
        if m:
            return {"p": m.group(1).lower(), "n": int(m.group(2))}
        m = re.fullmatch(r"bp\.NewArray\((.*)\)", e)
        if m:
            a = split_args(m.group(1))
            if len(a) != 3 or a[0] not in ("true", "false"):
                raise GoParseError("NewArray: " + e)
            return {"p": "array", "ext": a[0] == "true", "cap": int(a[1]), "elem": self.proc(a[2])}
        m = re.fullmatch(r"bp\.NewAliasProcessor\((.*)\)", e)
        if m:
            return {"p": "alias", "to": self.proc(m.group(1))}
        m = re.fullmatch(r"bp\.NewEnumProcessor\(bp\.NewUint\((\d+)\)\)", e)
        if m:
            return {"p": "enum", "n": int(m.group(1))}
        m = re.fullmatch(r"\(&([\w.]+)\{\}\)\.BpProcessor\(\)", e)
        if m:
            return self.proc_of_named(m.group(1), True)
        m = re.fullmatch(r"\(([\w.]+)(?:\((?:0|false)\)|\{\})\)\.BpProcessor\(\)", e)
        if m:
            return self.proc_of_named(m.group(1), False)
        raise GoParseError("processor expression: " + e)

    def msg_proc(self, name):
        m = re.search(r"^func \(m \*%s\) BpProcessor\(\) bp\.Processor \{\n(.*?)^\}" % re.escape(name),
                      self.text, re.M | re.S)
        if not m:
            raise GoParseError("BpProcessor of message %s not found" % name)
        body = m.group(1)
        fields = []
        for mm in re.finditer(r"^\t\tbp\.NewMessageFieldProcessor\((\d+), (.*)\),$", body, re.M):
            fields.append({"num": int(mm.group(1)), "t": self.proc(mm.group(2))})
        r = re.search(r"return bp\.NewMessageProcessor\((true|false), (\d+), fieldDescriptors\)", body)
        if not r:
            raise GoParseError("NewMessageProcessor of %s" % name)
        return {"p": "msg", "ext": r.group(1) == "true", "nbits": int(r.group(2)), "fields": fields}

    # ---- accessor switch statements ----
    def cases(self, name, method):
        m = re.search(r"^func \(m \*%s\) %s\(.*?\).*?\{\n(.*?)^\}" % (re.escape(name), method), self.text, re.M | re.S)
        if not m:
            raise GoParseError("%s of %s not found" % (method, name))
        out = {}
        cur = None
        for line in m.group(1).splitlines():
            st = line.strip()
            mm = re.fullmatch(r"case (\d+):", st)
            if mm:
                cur = int(mm.group(1))
                out[cur] = []
            elif st.startswith("default:"):
                cur = None
            elif cur is not None and st:
                out[cur].append(st)
        return out


CHAIN = r"m\.(\w+)((?:\[di\.I\(\d+\)\])*)"


def depth_of(idx):
    ds = [int(x) for x in re.findall(r"di\.I\((\d+)\)", idx)]
    if ds != list(range(len(ds))):
        raise GoParseError("index stack order: " + idx)
    return len(ds)


def accessor_rows(gf, name):
    """Rows describing BpSetByte / BpGetByte / BpGetAccessor / BpProcessInt of struct `name`."""
    # a field is identified by its POSITION in the struct (the struct is in field-number order)
    tag_of = {g: i + 1 for i, (g, _, tag) in enumerate(gf.struct_fields(name))}
    rows = {"set": [], "get": [], "acc": [], "sign": []}

    def tag(g):
        if g not in tag_of:
            raise GoParseError("accessor addresses unknown field %s" % g)
        return tag_of[g]
    for num, lines in gf.cases(name, "BpSetByte").items():
        if len(lines) != 1:
            raise GoParseError("BpSetByte case %d: %r" % (num, lines))
        s = lines[0]
        m = re.fullmatch(CHAIN + r" \|= \(([\w.]+)\(b\) << lshift\)", s)
        if m:
            rows["set"].append([num, depth_of(m.group(2)), tag(m.group(1)), gf.shape(m.group(3))])
            continue
        m = re.fullmatch(CHAIN + r" = (?:([\w.]+)\()?bp\.Byte2bool\(b\)\)?", s)
        if m:
            conv = gf.shape(m.group(3)) if m.group(3) else {"g": "bool"}
            rows["set"].append([num, depth_of(m.group(2)), tag(m.group(1)), conv])
            continue
        raise GoParseError("BpSetByte statement: " + s)
    for num, lines in gf.cases(name, "BpGetByte").items():
        if len(lines) != 1:
            raise GoParseError("BpGetByte case %d: %r" % (num, lines))
        s = lines[0]
        m = re.fullmatch(r"return byte\(" + CHAIN + r" >> rshift\)", s) or \
            re.fullmatch(r"return bp\.Bool2byte\((?:bool\()?" + CHAIN + r"\)?\) >> rshift", s)
        if not m:
            raise GoParseError("BpGetByte statement: " + s)
        rows["get"].append([num, depth_of(m.group(2)), tag(m.group(1))])
    for num, lines in gf.cases(name, "BpGetAccessor").items():
        if len(lines) != 1:
            raise GoParseError("BpGetAccessor case %d: %r" % (num, lines))
        m = re.fullmatch(r"return &\(" + CHAIN + r"\)", lines[0])
        if not m:
            raise GoParseError("BpGetAccessor statement: " + lines[0])
        rows["acc"].append([num, depth_of(m.group(2)), tag(m.group(1))])
    for num, lines in gf.cases(name, "BpProcessInt").items():
        if len(lines) != 2:
            raise GoParseError("BpProcessInt case %d: %r" % (num, lines))
        a = re.fullmatch(CHAIN + r" <<= (\d+)", lines[0])
        b = re.fullmatch(CHAIN + r" >>= (\d+)", lines[1])
        if not a or not b or a.group(1, 2) != b.group(1, 2):
            raise GoParseError("BpProcessInt statements: %r" % lines)
        rows["sign"].append([num, depth_of(a.group(2)), tag(a.group(1)), int(a.group(3)), int(b.group(3))])
    for k in rows:
        rows[k].sort(key=lambda r: r[0])
    return rows


# ---------------------------------------------------------------------------------------
# the runtime's pure helpers -> numeric ASTs
# ---------------------------------------------------------------------------------------

HTOK = re.compile(r"\s*(<<|>>|==|<=|>=|[A-Za-z_]\w*(?:\.\w+)*|\d+|[-+*/%<>(),])")


class HParser:
    def __init__(self, s):
        self.t = []
        i = 0
        s = s.strip()
        while i < len(s):
            m = HTOK.match(s, i)
            if not m:
                raise GoParseError("helper token at %r" % s[i:i + 10])
            self.t.append(m.group(1))
            i = m.end()
        self.i = 0

    def peek(self):
        return self.t[self.i] if self.i < len(self.t) else None

    def eat(self, x=None):
        tok = self.peek()
        if tok is None or (x and tok != x):
            raise GoParseError("helper: expected %r got %r" % (x, tok))
        self.i += 1
        return tok

    def cmp(self):
        a = self.add()
        while self.peek() in ("<", ">", "==", "<=", ">="):
            op = self.eat()
            a = {"n": "bin", "op": op, "a": a, "b": self.add()}
        return a

    def add(self):
        a = self.mul()
        while self.peek() in ("+", "-"):
            op = self.eat()
            a = {"n": "bin", "op": op, "a": a, "b": self.mul()}
        return a

    def mul(self):
        a = self.atom()
        while self.peek() in ("*", "/", "%", "<<", ">>"):
            op = self.eat()
            a = {"n": "bin", "op": op, "a": a, "b": self.atom()}
        return a

    def atom(self):
        tok = self.eat()
        if tok == "(":
            e = self.cmp()
            self.eat(")")
            return e
        if tok.isdigit():
            return {"n": "num", "v": int(tok)}
        if re.match(r"[A-Za-z_][\w.]*$", tok):
            if self.peek() == "(":
                self.eat("(")
                args = []
                while self.peek() != ")":
                    args.append(self.cmp())
                    if self.peek() == ",":
                        self.eat(",")
                self.eat(")")
                return {"n": "call", "f": tok, "args": args}
            return {"n": "var", "name": tok}
        raise GoParseError("helper atom %r" % tok)


def helper_defs(gotext, names):
    """{name: {"params": [...], "body": [...]}} for the pure helpers of lib/go/bitproto.go."""
    defs = {}
    for name in names:
        m = re.search(r"^func %s\(([^)]*)\) \w+ \{\n(.*?)^\}" % re.escape(name), gotext, re.M | re.S)
        if not m:
            raise GoParseError("helper %s not found" % name)
        params = []
        for part in m.group(1).split(","):
            params.append(part.strip().split(" ")[0])
        body = []
        lines = [l.strip() for l in m.group(2).splitlines() if l.strip() and not l.strip().startswith("//")]
        i = 0
        while i < len(lines):
            l = lines[i]
            mm = re.fullmatch(r"if (.+) \{", l)
            if mm:
                r = re.fullmatch(r"return (.+)", lines[i + 1])
                if not r or lines[i + 2] != "}":
                    raise GoParseError("helper if-form in %s" % name)
                p = HParser(mm.group(1))
                c = p.cmp()
                q = HParser(r.group(1))
                body.append({"s": "if", "c": c, "ret": q.cmp()})
                i += 3
                continue
            r = re.fullmatch(r"return (.+)", l)
            if r:
                body.append({"s": "ret", "e": HParser(r.group(1)).cmp()})
                i += 1
                continue
            raise GoParseError("helper statement in %s: %s" % (name, l))
        defs[name] = {"params": params, "body": body}
    return defs


def substitute(e, name, by):
    if e["n"] == "var":
        return by if e["name"] == name else e
    if e["n"] == "bin":
        return dict(e, a=substitute(e["a"], name, by), b=substitute(e["b"], name, by))
    if e["n"] == "call":
        return dict(e, args=[substitute(x, name, by) for x in e["args"]])
    return e


def skip_formulas(gotext):
    """The post-decode skip targets of lib/go/bitproto.go as helper definitions:
    arraySkip(i, ci, ahead, cap) and messageSkip(i, ahead)   (ci = ctx.i after the elements)."""
    m = re.search(r"elementNbits := (.+)\n\s*ito := (.+)\n\s*if ito >= ctx\.i \{\n\s*ctx\.i = ito", gotext)
    if not m:
        raise GoParseError("array skip formula not found")
    e1 = HParser(m.group(1)).cmp()
    e2 = substitute(HParser(m.group(2)).cmp(), "elementNbits", e1)
    ren = {"ctx.i": "ci", "t.capacity": "cap", "i": "i", "ahead": "ahead"}

    def rename(e):
        if e["n"] == "var":
            if e["name"] not in ren:
                raise GoParseError("unknown variable %s in skip formula" % e["name"])
            return {"n": "var", "name": ren[e["name"]]}
        if e["n"] == "bin":
            return dict(e, a=rename(e["a"]), b=rename(e["b"]))
        if e["n"] == "call":
            return dict(e, args=[rename(x) for x in e["args"]])
        return e
    m2 = re.search(r"// Skip redundant bits\.\n\s*ito := (i \+ int\(ahead\))\n\s*if ito >= ctx\.i", gotext)
    if not m2:
        raise GoParseError("message skip formula not found")
    ident = {"params": ["x"], "body": [{"s": "ret", "e": {"n": "var", "name": "x"}}]}
    return {"int": ident,
            "arraySkip": {"params": ["i", "ci", "ahead", "cap"], "body": [{"s": "ret", "e": rename(e2)}]},
            "messageSkip": {"params": ["i", "ahead"], "body": [{"s": "ret", "e": rename(HParser(m2.group(1)).cmp())}]}}
