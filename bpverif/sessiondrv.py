"""Runs a schedule of compile jobs inside ONE interpreter process and prints a digest per job.

Usage: sessiondrv.py <repo>  (the schedule, a JSON list of jobs, comes on stdin)
job = {"schema": path, "lang": .., "outdir": .., "O": bool, "F": [..]|null, "endian": .., "quiet": bool}
"""
import hashlib
import io
import json
import os
import sys


def digest(d):
    h = hashlib.sha256()
    for fn in sorted(os.listdir(d)):
        with open(os.path.join(d, fn), "rb") as f:
            h.update(fn.encode() + b"\0" + f.read() + b"\0")
    return h.hexdigest()


def main():
    repo = sys.argv[1]
    sys.path.insert(0, os.path.join(repo, "lib", "py"))
    sys.path.insert(0, os.path.join(repo, "compiler"))
    import bitproto
    assert os.path.abspath(bitproto.__file__).startswith(os.path.abspath(repo) + os.sep)
    from bitproto._main import main as bp_main
    jobs = json.load(sys.stdin)
    out = []
    for j in jobs:
        os.makedirs(j["outdir"], exist_ok=True)
        rc = 0
        err = io.StringIO()
        old = sys.stderr
        sys.stderr = err
        try:
            bp_main(j["schema"], lang=j["lang"], outdir=j["outdir"], disable_linter=j["quiet"],
                    enable_optimize=j["O"], filter_messages=j["F"], endian=j["endian"])
        except SystemExit as e:
            rc = int(e.code or 0)
        except BaseException as e:
            rc = 99
            err.write("%s: %s" % (type(e).__name__, e))
        finally:
            sys.stderr = old
        out.append({"exit": rc, "digest": digest(j["outdir"]), "stderr": err.getvalue()[-200:]})
    print(json.dumps(out))


if __name__ == "__main__":
    main()
