"""C08 -- a schema is accepted if and only if it satisfies the documented constraints."""
import os
import random

from .. import common, drive, gen, inject, prog as P, render
from ..report import Report
from . import comptrace, designlevel, pywire


def sigs(tr, v):
    return []


def msg(name, ext, fields, extra=None):
    body = list(extra or [])
    for i, (te, num) in enumerate(fields):
        body.append({"d": "field", "name": "f_%s" % gen.letters(i), "num": num, "t": te})
    return {"d": "message", "name": name, "ext": ext, "body": body}


def arr(elem, cap, ext=False):
    return {"k": "array", "elem": elem, "cap": gen.lit(cap), "ext": ext}


def boundary_programs():
    """Both sides of every numeric limit, hand-aimed (the specification decides which side is valid)."""
    B = {"k": "byte"}
    U = lambda n: {"k": "uint", "n": n}
    out = []

    def one(tag, decls, lib=None):
        files = {"main": [{"d": "proto", "name": "main"}] + decls}
        order = ["main"]
        if lib is not None:
            files = {"lib": [{"d": "proto", "name": "lib"}] + lib,
                     "main": [{"d": "proto", "name": "main"}, {"d": "import", "file": "lib", "as": None}] + decls}
            order = ["lib", "main"]
        out.append((tag, {"files": files, "order": order, "main": "main", "top": "Top"}))
    # message size: fields totalling F bits, with and without the 16-bit prefix, nested, via arrays
    for F in (65518, 65519, 65520, 65521, 65534, 65535, 65536):
        for ext in (False, True):
            fields = [(arr(B, F // 8), 1)]
            if F % 8:
                fields.append((U(F % 8), 2))
            one("size F=%d ext=%s" % (F, ext), [msg("Top", ext, fields)])
            # the same message nested in another one / as a field of a small outer message
            one("nested size F=%d ext=%s" % (F, ext),
                [{"d": "message", "name": "Top", "ext": False,
                  "body": [msg("Inner", ext, fields), {"d": "field", "name": "q", "num": 1, "t": {"k": "bool"}}]}])
    for F in (65519, 65520, 65535, 65536):
        # the prefix of an extensible ARRAY counts too
        one("ext array F=%d" % F, [msg("Top", False, [(arr(B, (F - 16) // 8, True), 1)] +
                                        ([(U((F - 16) % 8), 2)] if (F - 16) % 8 else []))])
        # size reached through an imported element message
        one("imported elem F=%d" % F, [msg("Top", False, [(arr(gen.tref(["lib", "E"]), F // 15), 1)] +
                                            ([(U(F % 15), 2)] if F % 15 else []))],
            lib=[msg("E", False, [(U(15), 1)])])
    for cap in (0, 1, 65535, 65536):
        one("cap=%d" % cap, [msg("Top", False, [(arr({"k": "bool"}, cap), 1)])])
        one("alias cap=%d" % cap, [{"d": "alias", "name": "Ty", "t": arr({"k": "bool"}, cap)}, msg("Top", False, [(gen.tref(["Ty"]), 1)])])
        one("const cap=%d" % cap, [{"d": "const", "name": "CAP", "v": gen.lit(cap)},
                                   msg("Top", False, [({"k": "array", "elem": {"k": "bool"}, "cap": {"e": "ref", "path": ["CAP"]}, "ext": False}, 1)])])
    for num in (0, 1, 255, 256):
        one("num=%d" % num, [msg("Top", False, [(U(3), num)])])
    for n in (0, 1, 64, 65):
        for k in ("uint", "int"):
            one("%s%d" % (k, n), [msg("Top", False, [({"k": k, "n": n}, 1)])])
            one("%s%d[2]" % (k, n), [msg("Top", False, [(arr({"k": k, "n": n}, 2), 1)])])
        one("enum uint%d" % n, [{"d": "enum", "name": "E", "n": n, "body": [{"d": "efield", "name": "E_Z", "value": 0}]},
                                msg("Top", False, [(gen.tref(["E"]), 1)])])
    for n in (1, 3, 8, 63, 64):
        for v in ((1 << n) - 1, 1 << n):
            one("enum uint%d value %d" % (n, v), [{"d": "enum", "name": "E", "n": n,
                                                   "body": [{"d": "efield", "name": "E_Z", "value": 0},
                                                            {"d": "efield", "name": "E_M", "value": v}]},
                                                  msg("Top", False, [(gen.tref(["E"]), 1)])])
    for mb in (0, 1, 2, 3):
        # 17 bits = 3 bytes
        one("max_bytes=%d for 17 bits" % mb, [msg("Top", False, [(U(17), 1)],
                                                  extra=[{"d": "option", "name": "max_bytes", "v": gen.lit(mb)}])])
        one("max_bytes=%d for 1+16 bits ext" % mb, [msg("Top", True, [(U(1), 1)],
                                                        extra=[{"d": "option", "name": "max_bytes", "v": gen.lit(mb)}])])
    for mb in (8191, 8192, 8193, 65535, 65536, 1 << 20):
        # a generous limit on a small message; and the largest message there is (65535 bits = 8192 bytes)
        one("max_bytes=%d for 17 bits" % mb, [msg("Top", False, [(U(17), 1)],
                                                  extra=[{"d": "option", "name": "max_bytes", "v": gen.lit(mb)}])])
        if mb <= 8193:
            one("max_bytes=%d for 65535 bits" % mb, [msg("Top", False, [(arr(B, 8191), 1), (U(7), 2)],
                                                         extra=[{"d": "option", "name": "max_bytes", "v": gen.lit(mb)}])])
    for al in (0, 1, 8):
        one("alignment=%d" % al, [{"d": "option", "name": "c.struct_packing_alignment", "v": gen.lit(al)},
                                  msg("Top", False, [(U(3), 1)])])
    return out


def main(tier, replay=None):
    rep = Report("C08", tier)
    seed = common.seed()
    rep.assumptions += [
        "the catalogue of the statement, nothing more: no schema without a proto line, no option value outside "
        "a validator's numeric range except c.struct_packing_alignment in 0..8",
        "'cites the offending file and line': the cited file is the file of the offending declaration and the "
        "cited line lies within the lines that declaration (or, for scope-level violations, that scope) spans",
        "line numbers of declarations are reported by the harness's text renderer (cross-checked by C20)",
    ]
    # design level: TLC writes every small program over {A, B} and checks the machine against the
    # declarative restatement (Visible / Valid) computed from positions in the finished text
    from .. import tlc as _tlc
    from . import designlevel as _dl
    _cfg = open(common.SPEC + "/MC_Compiler.cfg").read().replace("MaxDecls = 4", "MaxDecls = %d" % (5 if tier == "quick" else 7))
    _r = _dl.run_cfg("MC_Compiler", _cfg, timeout=3000)
    _tlc.machinery_check(_r, "MC_Compiler")
    rep.add_tlc(_r, "design:every single-file program of <= %d declarations over {A,B}: machine vs declarative Visible/Valid"
                % (5 if tier == "quick" else 7))
    if not _r.ok:
        raise common.MachineryError("MC_Compiler violated: %s" % _r.violated)
    # direction spec -> code: the same complete space (one declaration less), every program replayed into the parser
    from . import smallscope as _ss
    _ss.run(rep, tier, ("accepted-an-invalid-schema", "rejected-a-valid-schema", "raise"))
    nbase = 120 if tier == "quick" else 2500
    per = 8 if tier == "quick" else 10
    traces, metas = [], []
    clijobs, cliidx = [], []
    with common.Scratch("c08") as scratch:
        for k in range(nbase):
            rng = random.Random("c08/%d/%d" % (seed, k))
            base, _ = gen.rand_case(seed, 90000 + k, max_bits=rng.choice([60, 300, 1500]),
                                    p_enum_nonzero_first=0.1, consts=True,
                                    lib_as=rng.choice([None, None, "Lb", "lb_x"]))
            # syntax the statement of C08 does not mention but the grammar has (modelled as what the code
            # does): the deprecated typedef spelling, the proto line after definitions, a second proto line
            # (the last one names the proto, also for importers), yes/no booleans
            import copy as _copy
            b2 = _copy.deepcopy(base)
            b2.pop("rtype", None)
            for ds in b2["files"].values():
                for d_ in ds:
                    if d_["d"] == "alias" and rng.random() < 0.5:
                        d_["typedef"] = True
            mainf = b2["files"][b2["main"]]
            if rng.random() < 0.5:
                pl = [x for x in mainf if x["d"] == "proto"][0]
                mainf.remove(pl)
                mainf.append(pl)
            if rng.random() < 0.3:
                mainf.insert(0, {"d": "proto", "name": "earlier_name"})
            variants = [("valid", base, "unchanged", False), ("valid-unusual-syntax", b2, "typedef / late proto line", False)]
            # an aliased import is registered under its alias: the imported file's own proto name stays free
            imps_ = [i for i, x in enumerate(base["files"][base["main"]]) if x["d"] == "import" and x.get("as")]
            if imps_:
                b3 = _copy.deepcopy(base)
                m3 = b3["files"][b3["main"]]
                own = m3[imps_[0]]["file"]
                item = rng.choice([{"d": "const", "name": own, "v": gen.lit(1)},
                                   {"d": "message", "name": own, "ext": False, "body": []},
                                   {"d": "alias", "name": own, "t": {"k": "uint", "n": 7}}])
                m3.insert(rng.choice([imps_[0], imps_[0] + 1]), item)
                variants.append(("valid-aliased-import", b3, "the imported proto's own name is used by a %s" % item["d"], False))
            # constant expressions whose operators are written without blanks: "TOTAL-2", "8 -1", "2*3/1"
            b4 = _copy.deepcopy(base)
            m4 = b4["files"][b4["main"]]
            glue = rng.choice(["tight", "left", "right"])
            ti = [i for i, x in enumerate(m4) if x["d"] == "message" and x["name"] == b4["top"]][0]
            m4.insert(ti, {"d": "const", "name": "ZZ_TOTAL", "v": gen.lit(rng.choice([10, 64, 300]))})
            m4.insert(ti + 1, {"d": "const", "name": "ZZ_BODY", "glue": glue, "v": {"e": "toks", "glue": glue, "toks": [
                ["ref", ["ZZ_TOTAL"]], ["op", "-"], ["int", rng.choice([1, 2, 9])], ["op", rng.choice("+-*")], ["int", 1]]}})
            m4.insert(ti + 2, {"d": "alias", "name": "ZzBody", "t": {"k": "array", "elem": {"k": "bool"},
                                                                    "cap": {"e": "ref", "path": ["ZZ_BODY"]}, "ext": False}})
            variants.append(("valid-unspaced-expression", b4, "operators written %s" % glue, False))
            # the end of the file: no final newline, after a definition or after a comment
            b5 = _copy.deepcopy(base)
            b5["_eof"] = rng.choice(["no-newline", "comment-no-newline", "two-comments-no-newline",
                                     "end-of-line-comment-no-newline"])
            variants.append(("valid-end-of-file", b5, b5["_eof"], False))
            rules = rng.sample(inject.CATALOGUE, per)
            for rule in rules:
                got = inject.inject(base, rule, rng)
                if got is None:
                    continue
                variants.append((rule, got[0], got[1], rule == "extensible-in-traditional"))
            for rule, pr, note, trad in variants:
                d = scratch.sub()
                tr, proto, main_path = comptrace.make_trace("c08-%d-%d-%s" % (seed, k, rule), pr, d, trad=trad,
                                                            want=("msgs",))
                traces.append(tr)
                metas.append((rule, note, pr, main_path))
                rep.feature("rule:" + rule)
                # the command line: exit status, no output on rejection
                if rule != "valid" or k % 4 == 0:
                    out = os.path.join(d, "out")
                    os.makedirs(out)
                    args = ["c", main_path, out, "-q"] + (["-O"] if trad else [])
                    if not trad and k % 2:
                        args[0] = "py"
                    clijobs.append((args, d))
                    cliidx.append((len(traces) - 1, out))
        for tag, pr in boundary_programs():
            d = scratch.sub()
            tr, proto, main_path = comptrace.make_trace("c08-boundary-" + tag, pr, d, want=("msgs",))
            traces.append(tr)
            metas.append(("boundary", tag, pr, main_path))
            rep.feature("rule:boundary")
            out = os.path.join(d, "out")
            os.makedirs(out)
            clijobs.append((["c", main_path, out, "-q"], d))
            cliidx.append((len(traces) - 1, out))
        res = comptrace.run_cli_many(clijobs)
        for (ti, out), (rc, so, se) in zip(cliidx, res):
            traces[ti]["obs"].append(comptrace.cli_event(rc, se, out))
        verdicts, r = comptrace.validate(traces)
    rep.add_tlc(r, "trace-validation:Compiler machine over %d programs" % len(traces))
    rep.cov["traces_validated_against_impl"] = len(traces)
    nrej = 0
    for tr, (rule, note, pr, main_path), v in zip(traces, metas, verdicts):
        rep.count("evaluations")
        if v["status"] == "rejected":
            nrej += 1
            rep.feature("spec-rejects:" + v["kind"])
        else:
            rep.feature("spec-accepts")
        rep.distinct((rule, v["status"], v["kind"], note.split("=")[0]))
        if v["ok"]:
            if rule != "valid":
                rep.sample({"rule": rule, "note": note, "spec": v["status"] + ":" + v["kind"],
                            "schema": {n: render.render_file(ds) for n, ds in pr["files"].items()},
                            "observed": tr["obs"][0]}, limit=6)
            continue
        clause = v["why"].split(":", 1)[-1]
        if clause.startswith("skip"):
            rep.count("skipped_out_of_model")
            continue
        if clause.startswith("machinery"):
            raise common.MachineryError("trace %s: %s" % (tr["id"], v["why"]))
        case = {"id": tr["id"], "rule": rule, "note": note, "spec_verdict": v["status"] + ":" + v["kind"],
                "schema": {n: render.render_file(ds) for n, ds in pr["files"].items()},
                "observed": tr["obs"], "seed": seed}
        rep.decide(case, "%s (%s): %s" % (rule, note, v["why"]), sigs(tr, v))
    rep.cov["spec_rejected"] = nrej
    rep.cov["rule"] = ("valid U_rand programs, and each with one edit from the constraint catalogue (27 rules, both "
                       "sides of numeric limits) at a random position/nesting depth, incl. inside imported files; "
                       "the Compiler machine decides acceptance and the offending declaration's file/line span; "
                       "distinct_nontrivial counts distinct (rule, spec verdict, kind, boundary side) combinations")
    return rep.finish()
