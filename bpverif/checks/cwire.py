"""Engine shared by the checks that observe generated C + the C runtime (C03 C06 C07 C14 C16)."""
import json
import os

from .. import cdrive, common, drive, gen
from . import pywire


class CCase:
    def __init__(self, cid, prog, values, note=None):
        self.cid = cid
        self.prog = prog
        self.values = values
        self.note = note or {}
        self.events = []
        self.event_src = []
        self.error = None


def prepare(cases, scratch, builder, optimize=False, endian="both", single_tu=False, jobs=16):
    """Generates, compiles and links every case; returns list of (case, CLib|None)."""
    cmds, metas = [], []
    for c in cases:
        d = scratch.sub()
        try:
            cs = builder.generate(c.prog, d, optimize=optimize, endian=endian)
            cmd, so, pats = builder.link_cmd(d, cs, c.prog, single_tu=single_tu)
            cmds.append(cmd)
            metas.append((c, so, pats, None))
        except Exception as exc:
            cls, where = drive.exc_signature(exc)
            cmds.append(["true"])
            metas.append((c, None, None, "%s@%s@compile" % (cls, where)))
    results = cdrive.run_many(cmds, jobs=jobs)
    out = []
    for (c, so, pats, err), (rc, stderr) in zip(metas, results):
        if err:
            c.events.append({"ev": "Raise", "what": err})
            c.event_src.append(-1)
            out.append((c, None))
            continue
        if rc != 0:
            first = [l for l in stderr.splitlines() if "error" in l][:1]
            c.events.append({"ev": "Fault", "what": "toolchain-rejects:" + (first[0][-160:] if first else "gcc")})
            c.event_src.append(-1)
            out.append((c, None))
            continue
        out.append((c, builder.load(so, c.prog, pats)))
    return out


def json_bound(t):
    """An upper bound on the length of the JSON text of a value of type t (the C Json function has no length
    parameter: the buffer the harness hands it must be large enough whatever the field names are)."""
    k = t["k"]
    if k == "alias":
        return json_bound(t["to"])
    if k == "array":
        return 2 + t["cap"] * (json_bound(t["elem"]) + 1)
    if k == "msg":
        return 2 + sum(len(f["name"]) + 4 + json_bound(f["t"]) for f in t["fields"])
    return 24


def drive_case(c, lib, worker, want, guard="none", tag="", be=False):
    """Runs the C API on every value of the case and records events."""
    t = c.prog["rtype"]
    ev = c.events
    top = lib.top
    if "widths" in want:
        ev.append({"ev": "CWidths", "w": lib.widths()})
        c.event_src.append(-1)
    if "size" in want:
        ev.append({"ev": "Size", "n": lib.bytes_length})
        c.event_src.append(-1)
    ops = []
    plan = []
    raw = c.note.get("raw", False)
    for vi, v in enumerate(c.values):
        img = lib.image(v, be=be)
        ops.append(["enc", img.hex()])
        plan.append(("enc", vi, img))
        if "json" in want:
            ops.append(["json", img.hex(), max(64 + 40 * max(1, len(lib._order())) + 300 * 64, 64 + 2 * json_bound(t))])
            plan.append(("json", vi, img))
    job = {"so": lib.so, "enc": "Encode" + top, "dec": "Decode" + top,
           "json": ("Json" + top) if "json" in want else None,
           "sizeof": lib.sizeof, "buflen": lib.bytes_length, "guard": guard, "ops": ops}
    status, res = worker.call(job)
    if status != "ok":
        ev.append({"ev": "Fault", "what": "%s%s:%s" % (tag, status, res)})
        c.event_src.append(-1)
        return
    bufs = []
    for (kind, vi, img), r in zip(plan, res):
        if not r.get("slack", True):
            ev.append({"ev": "Fault", "what": tag + "canary-overwritten@" + kind})
            c.event_src.append(vi)
        if kind == "enc":
            buf = bytes.fromhex(r["buf"])
            e = {"ev": "CEncode", "mem": lib.read_image(img, be=be), "bytes": list(buf)}
            if not raw:
                e["v"] = gen.sm_tree(t, c.values[vi])
            ev.append(e)
            c.event_src.append(vi)
            bufs.append((vi, buf))
            if bytes.fromhex(r["mem"]) != bytes(img):
                ev.append({"ev": "Fault", "what": tag + "encode-modified-struct"})
                c.event_src.append(vi)
        elif kind == "json":
            try:
                tree = pywire.to_neutral_from_pairs(pywire.parse_json_pairs(r["text"]))
                ev.append({"ev": "Json", "v": gen.sm_tree(t, c.values[vi]), "tree": tree})
            except Exception as exc:
                ev.append({"ev": "Raise", "what": "MalformedJson:%s" % (r["text"][:80],)})
            c.event_src.append(vi)
    if "dec" in want and bufs:
        ops = [["dec", b.hex()] for _, b in bufs]
        job = dict(job, ops=ops)
        status, res = worker.call(job)
        if status != "ok":
            ev.append({"ev": "Fault", "what": "%s%s:%s" % (tag, status, res)})
            c.event_src.append(-1)
            return
        for (vi, b), r in zip(bufs, res):
            if not r.get("slack", True):
                ev.append({"ev": "Fault", "what": tag + "canary-overwritten@dec"})
                c.event_src.append(vi)
            if not r.get("buf_unchanged", True):
                ev.append({"ev": "Fault", "what": tag + "decode-modified-buffer"})
                c.event_src.append(vi)
            mem = bytes.fromhex(r["mem"])
            ev.append({"ev": "CDecode", "bytes": list(b), "mem": lib.read_image(mem, be=be)})
            c.event_src.append(vi)
