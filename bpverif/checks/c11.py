"""C11 -- names resolve to the innermost visible earlier definition."""
import random

from .. import common, gen, render, shadowgen
from ..report import Report
from . import comptrace


def rng_bits(k):
    return [60, 300, 900][k % 3]


def main(tier, replay=None):
    rep = Report("C11", tier)
    seed = common.seed()
    rep.assumptions += [
        "a dotted path resolves in the innermost scope in which the WHOLE path resolves (the documented B.Color "
        "example); programs in which an inner scope declares the first component but not the rest are tagged "
        "ambiguous by the specification and checked for totality only",
        "identity of the chosen definition is observed as (file, line) of proto.references[k].referenced_definition "
        "and through the widths the fields get (every definition has its own width)",
    ]
    # design level: TLC writes every small program over {A, B} and checks the machine against the
    # declarative restatement (Visible / Valid) computed from positions in the finished text
    from .. import tlc as _tlc
    from . import designlevel as _dl
    _cfg = open(common.SPEC + "/MC_Compiler.cfg").read().replace("MaxDecls = 4", "MaxDecls = %d" % (5 if tier == "quick" else 7))
    _r = _dl.run_cfg("MC_Compiler", _cfg, timeout=3000)
    _tlc.machinery_check(_r, "MC_Compiler")
    rep.add_tlc(_r, "design:every single-file program of <= %d declarations over {A,B}: machine vs declarative Visible/Valid"
                % (5 if tier == "quick" else 7))
    if not _r.ok:
        raise common.MachineryError("MC_Compiler violated: %s" % _r.violated)
    # direction spec -> code: the same complete space (one declaration less), every program replayed into the parser
    from . import smallscope as _ss
    _ss.run(rep, tier, ("resolves-elsewhere", "rejected-a-valid-schema", "accepted-an-invalid-schema"))
    n = 1500 if tier == "quick" else 40000
    traces, progs = [], []
    with common.Scratch("c11") as scratch:
        for k in range(n):
            rng = random.Random("c11/%d/%d" % (seed, k))
            g = shadowgen.ShadowGen(rng, with_lib=True, depth=3)
            pr = g.build()
            d = scratch.sub()
            tr, proto, _ = comptrace.make_trace("c11-%d-%d" % (seed, k), pr, d, want=("msgs", "refs", "lines"))
            traces.append(tr)
            progs.append(pr)
        # U_rand programs (imports, nested definitions, aliases, constants) as well
        for k in range(n // 10):
            pr, rng = gen.rand_case(seed, 110000 + k)
            if k % 3 == 1:
                pr = gen.wrap_diamond(pr, rng)       # a third file importing both others: names through two import paths
            d = scratch.sub()
            tr, proto, _ = comptrace.make_trace("c11-urand-%d-%d" % (seed, k), pr, d, want=("msgs", "refs", "lines"))
            traces.append(tr)
            progs.append(pr)
        # "the resolved definition is the one whose width, members and encoding the field gets", seen from the
        # generated C: programs whose imported file carries its own c.name_prefix (so that a definition's C name
        # says which file it came from) are built and run; TLC decides the bytes against the intended type
        from .. import cdrive as _cdrive
        from . import cwire as _cwire, pywire as _pywire
        worker = _cdrive.Worker()
        try:
            builder = _cdrive.CBuilder(scratch, cflags=("-O1",))
            ccases = []
            for k in range(24 if tier == "quick" else 300):
                pr, rng = gen.rand_case(seed, 115000 + k, max_bits=rng_bits(k), p_ext=0.0 if k % 2 else 0.3)
                libs = [f for f in pr["order"] if f != pr["main"]]
                if not libs:
                    continue
                lf = pr["files"][libs[0]]
                pi = [i for i, x in enumerate(lf) if x["d"] == "proto"][0]
                lf.insert(pi + 1, {"d": "option", "name": "c.name_prefix", "v": {"e": "str", "src": "Lib", "val": "Lib"}})
                t = pr["rtype"]
                ccases.append(_cwire.CCase("c11-c-%d-%d" % (seed, k), pr,
                                           [gen.gen_value(rng, t, "ones"), gen.gen_value(rng, t, "rand")]))
            for c, lib in _cwire.prepare(ccases, scratch, builder, optimize=False):
                if lib is not None:
                    _cwire.drive_case(c, lib, worker, want=("enc", "dec"))
                rep.feature("c-encoding-with-prefixed-import")
            _pywire.validate_and_decide(rep, ccases, count_events=("CEncode", "CDecode"))
        finally:
            worker.close()
        verdicts = []
        B = 4000
        for i in range(0, len(traces), B):
            v, r = comptrace.validate(traces[i:i + B])
            verdicts += v
            rep.add_tlc(r, "trace-validation:Compiler machine, batch %d" % (i // B))
    rep.cov["traces_validated_against_impl"] = len(traces)
    nrefs = 0
    for tr, pr, v in zip(traces, progs, verdicts):
        rep.count("evaluations")
        refs = [e for e in tr["obs"] if e["ev"] == "Refs"]
        nr = len(refs[0]["refs"]) if refs else 0
        nrefs += nr
        shadow = False
        if refs:
            # a reference whose last name is declared more than once in the program
            names = [d["name"] for ds in pr["files"].values() for d in _all_decls(ds) if d["d"] in ("message", "enum", "alias", "const")]
            shadow = any(names.count(x[2][-1]) > 1 for x in refs[0]["refs"])
        rep.feature("spec:" + v["status"] + (":" + v["kind"] if v["kind"] else ""))
        if v["status"] == "accepted" and shadow:
            rep.feature("accepted-with-shadowed-reference")
            rep.distinct(render.render_file(pr["files"]["main"]))
        if v["ok"]:
            if v["status"] == "accepted" and shadow:
                rep.sample({"schema": {n_: render.render_file(ds) for n_, ds in pr["files"].items()},
                            "references": refs[0]["refs"]})
            continue
        clause = v["why"].split(":", 1)[-1]
        if clause.startswith("skip"):
            rep.count("skipped:" + clause.split(":")[1])
            continue
        if clause.startswith("machinery"):
            raise common.MachineryError("trace %s: %s" % (tr["id"], v["why"]))
        case = {"id": tr["id"], "schema": {n_: render.render_file(ds) for n_, ds in pr["files"].items()},
                "spec_verdict": v["status"] + ":" + v["kind"], "observed": tr["obs"], "seed": seed}
        rep.decide(case, v["why"], [])
    rep.cov["references_compared"] = nrefs
    rep.cov["rule"] = ("random programs over the names {A,B,C} (the same name in several enclosing scopes and in an "
                       "imported file, `as` names, dotted paths, uses before declarations) nested to depth 3, plus "
                       "U_rand programs; the Compiler machine decides acceptance, every reference's target (file, "
                       "line) and every field's width; distinct_nontrivial counts distinct accepted program texts "
                       "that contain a reference to a name declared more than once")
    return rep.finish()


def _all_decls(decls):
    for d in decls:
        yield d
        if d["d"] in ("message", "enum"):
            yield from _all_decls(d["body"])
