"""C15 -- generated API names follow the documented scheme."""
import copy
import os
import random
import re
import subprocess

from .. import cdrive, common, drive, gen, prog as P, render, tlc
from ..report import Report
from . import comptrace, cwire, pywire
from .c20 import all_decls, rename_refs

WORDS = ("zoo park monkey house food kind time stamp color pen ink drone motor wing tail light sensor value "
         "frame packet header footer point vector angle speed level power state mode flag count index offset "
         "length width height depth radius weight price total limit ratio scale range delta sigma omega alpha "
         "bravo charlie echo foxtrot hotel india juliet kilo lima mike oscar papa quebec romeo sierra tango "
         "uniform victor whiskey yankee zulu apple banana cherry grape lemon mango olive peach plum berry melon "
         "river lake ocean island forest desert valley canyon meadow garden bridge tower castle palace temple "
        ).split()
RESERVED = {"type", "int", "bool", "byte", "float", "double", "char", "short", "long", "void", "class", "def", "func",
            "range", "value", "index", "length", "mode", "state", "count", "flag"}
POOL = [w for w in WORDS if w not in RESERVED]


def triple(w):
    return [w, w.capitalize(), w.upper()]


def stylize(pr, rng, prefix_words=None):
    """Renames every definition to style-guide names built from dictionary words; every definition gets
    its own first word, so flattened names cannot collide.  Records the word lists."""
    p = copy.deepcopy(pr)
    firsts = list(POOL)
    rng.shuffle(firsts)
    for fname, ds in p["files"].items():
        for d in list(all_decls(ds)):
            k = d["d"]
            if k not in ("message", "enum", "alias", "const", "field", "efield"):
                continue
            if not firsts:
                return None
            ws = [firsts.pop()] + [rng.choice(POOL) for _ in range(rng.choice([0, 1, 1, 2]))]
            old = d["name"]
            if k in ("message", "enum", "alias"):
                new = "".join(w.capitalize() for w in ws)
            elif k == "field":
                new = "_".join(ws)
            else:
                new = "_".join(w.upper() for w in ws)
            d["name"] = new
            d["words"] = [triple(w) for w in ws]
            d["style"] = "ok"
            if k in ("message", "enum", "alias", "const"):
                rename_refs(p, old, new)
            if k == "message" and p.get("top") == old:
                p["top"] = new
    # keep the intended type tree's field names in step with the declarations
    from ..rewrite import rtype_nodes
    for n in rtype_nodes(p["rtype"]):
        if n["k"] == "msg" and n.get("_decl") is not None:
            for f, fd in zip(n["fields"], [x for x in n["_decl"]["body"] if x["d"] == "field"]):
                f["name"] = fd["name"]
    p["_prefix_words"] = {}
    if prefix_words:
        # the option's spelling: lower case, UPPER case, or mixed -- the prescribed names are built from the
        # WORDS of the prefix, whatever their case in the option
        style = rng.choice(["lower", "lower", "upper", "mixed"])
        ws = [w.upper() if style == "upper" or (style == "mixed" and i % 2) else w for i, w in enumerate(prefix_words)]
        text = "_".join(ws) + "_"
        main = p["files"][p["main"]]
        pi = [i for i, x in enumerate(main) if x["d"] == "proto"][0]
        main.insert(pi + 1, {"d": "option", "name": "c.name_prefix", "v": {"e": "str", "src": text, "val": text}})
        p["_prefix_words"][p["main"]] = [triple(w) for w in prefix_words]
    return p


C_DEFINE = re.compile(r"^#define\s+(\w+)", re.M)
C_TYPEDEF = re.compile(r"^typedef\s+.*?\b(\w+)(?:\[\d+\])*;", re.M)
C_STRUCT = re.compile(r"^struct (\w+) \{\n(.*?)^\};", re.M | re.S)
C_FUNC = re.compile(r"^(?:int|void)\s+(\w+)\(", re.M)
C_MEMBER = re.compile(r"^\s+.*?\b(\w+)(?:\[\d+\])*;", re.M)
GO_TYPE = re.compile(r"^type (\w+) ", re.M)
GO_CONST = re.compile(r"^const (\w+) ", re.M)
GO_CONST_BLOCK = re.compile(r"^const \(\n(.*?)^\)", re.M | re.S)
GO_STRUCT = re.compile(r"^type (\w+) struct \{\n(.*?)^\}", re.M | re.S)
GO_FIELD = re.compile(r'^\t(\w+) .*?`json:"(\w+)"`', re.M)
GO_METHOD = re.compile(r"^func \(m \*(\w+)\) (\w+)\(", re.M)


def c_ids(d, base, so=None):
    h = open(os.path.join(d, base + ".h")).read()
    ids = set(C_DEFINE.findall(h)) | set(C_TYPEDEF.findall(h)) | set(C_FUNC.findall(h))
    fields = {}
    for m in C_STRUCT.finditer(h):
        ids.add("struct " + m.group(1))
        fl = C_MEMBER.findall(m.group(2))
        fields[m.group(1)] = fl
        for f in fl:
            ids.add(m.group(1) + "." + f)
    if so:
        p = subprocess.run(["nm", "-D", "--defined-only", so], capture_output=True, text=True)
        exported = {l.split()[-1] for l in p.stdout.splitlines() if " T " in l}
        # a function counts as declared only if the header declares it AND the object exports it
        ids = {i for i in ids if not re.match(r"^(Encode|Decode|Json)", i) or i in exported}
    return sorted(ids), fields


def go_ids(d, base):
    g = open(os.path.join(d, base + ".go")).read()
    ids = set(GO_TYPE.findall(g)) | set(GO_CONST.findall(g))
    for m in GO_CONST_BLOCK.finditer(g):
        for line in m.group(1).splitlines():
            w = line.strip().split(" ")
            if w and re.match(r"^\w+$", w[0]):
                ids.add(w[0])
    for m in GO_STRUCT.finditer(g):
        for f, tag in GO_FIELD.findall(m.group(2)):
            ids.add("%s.%s:%s" % (m.group(1), f, tag))
    for t, meth in GO_METHOD.findall(g):
        ids.add("%s.%s" % (t, meth))
    return sorted(ids)


def py_ids(mod):
    import dataclasses
    ids = set()
    for name in dir(mod):
        if name.startswith("__"):
            continue
        ids.add(name)
        obj = getattr(mod, name)
        if isinstance(obj, type) and dataclasses.is_dataclass(obj):
            for f in dataclasses.fields(obj):
                ids.add("%s.%s" % (name, f.name))
            for a in ("encode", "decode", "to_json", "to_dict", "BYTES_LENGTH"):
                if hasattr(obj, a):
                    ids.add("%s.%s" % (name, a))
    return sorted(ids)


def main(tier, replay=None):
    rep = Report("C15", tier)
    seed = common.seed()
    rep.assumptions += [
        "only style-guide-named schemas: names are built from lower-case dictionary words (no digits, acronyms or "
        "target-language keywords), every definition starts with its own word so flattened names cannot collide",
        "the three spellings of each word (lower, Capitalised, UPPER) are supplied by the harness; identifiers are "
        "built from them by Naming.tla",
        "Go: nested type names are not judged (the guides fix them for C and Python only)",
        "c.name_prefix is written as the guide writes it: words joined by '_' with a trailing '_'",
    ]
    n = 40 if tier == "quick" else 700
    traces, wtraces, metas = [], [], []
    worker = cdrive.Worker()
    try:
        with common.Scratch("c15") as scratch:
            builder = cdrive.CBuilder(scratch, cflags=("-O1",))
            for k in range(n):
                rng = random.Random("c15/%d/%d" % (seed, k))
                base, _ = gen.rand_case(seed, 200000 + k, max_bits=rng.choice([60, 300]), max_fields=5, reuse_names=0,
                                        p_ext=0.0 if k % 3 == 0 else 0.3)
                plain = stylize(base, random.Random("c15s/%d/%d" % (seed, k)))
                if plain is None:
                    continue
                pw = [rng.choice(POOL) for _ in range(rng.choice([1, 2]))]
                pref = stylize(base, random.Random("c15s/%d/%d" % (seed, k)), prefix_words=pw)
                trad = not gen.has_ext(base["rtype"])
                twin = {}
                for variant, pr in (("plain", plain), ("prefix", pref)):
                    for optimize in ((False, True) if trad and k % 2 == 0 else (False,)):
                        d = scratch.sub()
                        main_path, paths = render.write_program(pr, d)
                        proto, outcome = P.observe_parse(main_path, trad=optimize)
                        obs = [outcome]
                        info = {}
                        if proto is not None:
                            try:
                                pr2 = dict(pr, rtype=base["rtype"])
                                cs = builder.generate(pr, d, optimize=optimize)
                                # the probe and the driver need the C names of the top struct: from the scheme
                                topc = ("".join(w.capitalize() for w in pw) if variant == "prefix" else "") + pr["top"]
                                so = None
                                cmd = ["gcc", "-shared", "-fPIC", "-w", "-I", common.REPO_LIBC, "-I", d] + cs + \
                                      [builder.rt_obj, "-o", os.path.join(d, "libnames.so")]
                                pp = subprocess.run(cmd, capture_output=True, text=True)
                                if pp.returncode == 0:
                                    so = os.path.join(d, "libnames.so")
                                else:
                                    obs.append({"ev": "Fault", "what": "c-does-not-compile"})
                                for f in pr["order"]:
                                    ids, fields = c_ids(d, f + "_bp", so if f == pr["main"] else None)
                                    obs.append({"ev": "Declared", "lang": "c", "file": f, "ids": ids, "stdmode": not optimize})
                                    if f == pr["main"]:
                                        info["c_fields"] = [fields[k_] for k_ in sorted(fields, key=lambda s: s[len(topc) - len(pr["top"]):] if variant == "prefix" else s)]
                                obs.append({"ev": "Files", "lang": "c", "file": pr["main"], "ext": ".h", "names": sorted(os.listdir(d))})
                                obs.append({"ev": "Files", "lang": "c", "file": pr["main"], "ext": ".c", "names": sorted(os.listdir(d))})
                                if not optimize:
                                    drive.compile_program(paths, pr["order"], "go", d)
                                    drive.compile_program(paths, pr["order"], "py", d)
                                    for f in pr["order"]:
                                        obs.append({"ev": "Declared", "lang": "go", "file": f, "ids": go_ids(d, f + "_bp"), "stdmode": True})
                                    obs.append({"ev": "Files", "lang": "go", "file": pr["main"], "ext": ".go", "names": sorted(os.listdir(d))})
                                    obs.append({"ev": "Files", "lang": "py", "file": pr["main"], "ext": ".py", "names": sorted(os.listdir(d))})
                                    try:
                                        mods = {f: drive.load_py(d, f + "_bp") for f in pr["order"]}
                                        for f in pr["order"]:
                                            obs.append({"ev": "Declared", "lang": "py", "file": f, "ids": py_ids(mods[f]), "stdmode": True})
                                    finally:
                                        drive.unload_py(d)
                                # layout of every struct as gcc sees it (sizeof + member offsets), for the twin comparison
                                if so and not optimize:
                                    info["layout"] = struct_layouts(d, pr["main"] + "_bp.h")
                            except Exception as exc:
                                obs.append({"ev": "Raise", "what": "%s@%s@names" % drive.exc_signature(exc)})
                        twin[(variant, optimize)] = info
                        if variant == "prefix" and ("plain", optimize) in twin:
                            a, b = twin[("plain", optimize)], info
                            if "c_fields" in a and "c_fields" in b:
                                obs.append({"ev": "SameSeq", "what": "field-names", "a": a["c_fields"], "b": b["c_fields"]})
                            if "layout" in a and "layout" in b:
                                obs.append({"ev": "SameSeq", "what": "struct-layout", "a": a["layout"], "b": b["layout"]})
                        tr = P.spec_program(pr, trad=optimize)
                        tr["id"] = "c15-%d-%d-%s%s" % (seed, k, variant, "-O" if optimize else "")
                        tr["obs"] = obs
                        traces.append(tr)
                        metas.append((variant, optimize, pr))
                        rep.feature("variant:%s%s" % (variant, " -O" if optimize else ""))
                # encoded bytes with the prefix: decided against Wire like any other C encode
                pfx = "".join(w.capitalize() for w in pw)
                pref["_c_top"] = pfx + pref["top"]
                pref["_c_size_macro"] = "BYTES_LENGTH_" + "_".join(w.upper() for w in pw) + "_" + \
                    "_".join(t[2] for t in [d_ for d_ in all_decls(pref["files"][pref["main"]])
                                            if d_["d"] == "message" and d_["name"] == pref["top"]][0]["words"])
                vals = [gen.gen_value(rng, pref["rtype"], "ones"), gen.gen_value(rng, pref["rtype"], "rand")]
                wtraces.append(cwire.CCase("c15-bytes-%d" % k, pref, vals))
            built = cwire.prepare(wtraces, scratch, builder)
            for c, lib in built:
                if lib is not None:
                    cwire.drive_case(c, lib, worker, want=("enc", "dec"))
            pywire.validate_and_decide(rep, wtraces, count_events=("CEncode", "CDecode"))
            # one parsed schema rendered for c, then go, then py in the same process (the library use of parse() /
            # render()): every language still follows its own scheme
            for k in range(0, n, 3):
                rng = random.Random("c15/%d/%d" % (seed, k))
                base, _ = gen.rand_case(seed, 200000 + k, max_bits=rng.choice([60, 300]), max_fields=5, reuse_names=0,
                                        p_ext=0.0 if k % 3 == 0 else 0.3)
                pw = [rng.choice(POOL) for _ in range(rng.choice([1, 2]))]
                pr = stylize(base, random.Random("c15s/%d/%d" % (seed, k)), prefix_words=pw if k % 2 else None)
                if pr is None:
                    continue
                d = scratch.sub()
                main_path, paths = render.write_program(pr, d)
                proto, outcome = P.observe_parse(main_path)
                obs = [outcome]
                if proto is not None:
                    try:
                        common.use_repo()
                        from bitproto.renderer import render as _render
                        order = ["c", "go", "py"] if k % 2 == 0 else ["py", "c", "go"]
                        for lang in order:
                            _render(proto, lang, outdir=d)
                        for f in pr["order"]:
                            if f != pr["main"]:
                                for lang in ("c", "go", "py"):
                                    drive.compile_inproc(paths[f], lang, d)
                        ids, _fields = c_ids(d, pr["main"] + "_bp", None)
                        obs.append({"ev": "Declared", "lang": "c", "file": pr["main"], "ids": ids, "stdmode": True})
                        obs.append({"ev": "Declared", "lang": "go", "file": pr["main"], "ids": go_ids(d, pr["main"] + "_bp"),
                                    "stdmode": True})
                        try:
                            mod = drive.load_py(d, pr["main"] + "_bp")
                            obs.append({"ev": "Declared", "lang": "py", "file": pr["main"], "ids": py_ids(mod), "stdmode": True})
                        finally:
                            drive.unload_py(d)
                    except Exception as exc:
                        obs.append({"ev": "Raise", "what": "%s@%s@same-proto" % drive.exc_signature(exc)})
                tr = P.spec_program(pr)
                tr["id"] = "c15-sameproto-%d-%d" % (seed, k)
                tr["obs"] = obs
                traces.append(tr)
                metas.append(("one-parse-%s" % ("prefix" if k % 2 else "plain"), False, pr))
                rep.feature("one-parse-three-languages")
            # schema files with unusual names: the output file is <base name>_bp<ext>, only the last dotted part of
            # the name being its extension
            odd_names = ["zoo.v2.bitproto", "sensor.rev3.final.bitproto", "a-b.bitproto", "UPPER.bitproto", "noext",
                         "name.proto", ".hidden.bitproto", "x_y.z.bitproto", "v1.2.3"]
            small = {"files": {"main": [{"d": "proto", "name": "oddname"},
                                        {"d": "message", "name": "Top", "ext": False,
                                         "body": [{"d": "field", "name": "a", "num": 1, "t": {"k": "uint", "n": 5}}]}]},
                     "order": ["main"], "main": "main", "top": "Top"}
            for oi, fname in enumerate(odd_names if tier != "quick" else odd_names[(seed % 3)::2] + odd_names[:1]):
                d = scratch.sub()
                sub = os.path.join(d, "dir.with.dots")
                os.makedirs(sub)
                path = os.path.join(sub, fname)
                with open(path, "w") as fh:
                    fh.write(render.render_file(small["files"]["main"]))
                proto, outcome = P.observe_parse(path)
                obs = [outcome]
                if proto is not None:
                    for lang, exts, kw in (("c", (".h", ".c"), {}), ("c", (".h", ".c"), {"optimize": True}),
                                           ("go", (".go",), {}), ("py", (".py",), {})):
                        out = os.path.join(d, "out_%s%s" % (lang, "_O" if kw else ""))
                        os.makedirs(out)
                        try:
                            drive.compile_inproc(path, lang, out, **kw)
                            for ext in exts:
                                obs.append({"ev": "FilesNamed", "parts": fname.split("."), "ext": ext,
                                            "lang": lang, "names": sorted(os.listdir(out))})
                        except Exception as exc:
                            obs.append({"ev": "Raise", "what": "%s@%s@render-%s" % (drive.exc_signature(exc) + (lang,))})
                tr = P.spec_program(small)
                tr["id"] = "c15-oddname-%s" % fname
                tr["obs"] = obs
                traces.append(tr)
                pr_ = dict(small, _texts={"main": "file name: " + fname})
                metas.append(("file-name", False, pr_))
                rep.feature("odd-file-name")
            verdicts, r = comptrace.validate(traces)
    finally:
        worker.close()
    rep.add_tlc(r, "trace-validation:Compiler + Naming expectations")
    rep.cov["traces_validated_against_impl"] = len(traces)
    for tr, (variant, optimize, pr), v in zip(traces, metas, verdicts):
        nids = sum(len(e.get("ids", [])) for e in tr["obs"] if e["ev"] == "Declared")
        rep.count("evaluations", nids)
        rep.distinct(pr["_texts"][pr["main"]], True)
        if v["ok"]:
            decl = [e for e in tr["obs"] if e["ev"] == "Declared"]
            if decl:
                rep.sample({"variant": variant, "schema": pr["_texts"], "declared_c": decl[0]["ids"][:25]}, limit=2)
            continue
        clause = v["why"].split(":", 1)[-1]
        if clause.startswith("skip"):
            continue
        if clause.startswith("machinery"):
            raise common.MachineryError("trace %s: %s" % (tr["id"], v["why"]))
        idx = int(v["why"].split(":")[0]) - 1
        e = dict(tr["obs"][idx])
        case = {"id": tr["id"], "variant": variant, "optimize": optimize, "schema": pr["_texts"], "event": e, "seed": seed}
        rep.decide(case, "%s%s: %s" % (variant, " -O" if optimize else "", v["why"]), [])
    rep.cov["rule"] = ("random valid programs renamed to style-guide names built from dictionary words (1..3 words per "
                       "name), nested to depth 3, with imports, each compiled without and with c.name_prefix, in standard "
                       "and (traditional ones) -O mode; TLC builds the expected identifiers with Naming.tla and checks "
                       "they are declared in the .h (and exported by the shared object), .go and the imported Python "
                       "module, the output file names, and that the prefix changes neither field names nor struct "
                       "layouts; distinct_nontrivial counts distinct program texts")
    return rep.finish()


def struct_layouts(d, header):
    """sizeof and member offsets of every struct of the header, in declaration order, as gcc sees them."""
    h = open(os.path.join(d, header)).read()
    src = ['#include <stdio.h>', '#include <stddef.h>', '#include "%s"' % header, 'int main(void) {']
    for m in C_STRUCT.finditer(h):
        src.append('printf("S %%zu\\n", sizeof(struct %s));' % m.group(1))
        for f in C_MEMBER.findall(m.group(2)):
            src.append('printf("%s %%zu\\n", offsetof(struct %s, %s));' % (f, m.group(1), f))
    src += ['return 0;', '}']
    cf = os.path.join(d, "bpv_layout.c")
    with open(cf, "w") as fh:
        fh.write("\n".join(src) + "\n")
    exe = os.path.join(d, "bpv_layout")
    p = subprocess.run(["gcc", "-w", "-I", common.REPO_LIBC, "-I", d, cf, "-o", exe], capture_output=True, text=True)
    if p.returncode != 0:
        return ["does-not-compile"]
    return subprocess.run([exe], capture_output=True, text=True).stdout.split()
