"""C05 -- forward compatibility: an older schema decodes data from an extended one."""
import random

from .. import aheadsweep, cdrive, common, drive, evolve, gen, render, tlc
from ..report import Report
from . import cwire, designlevel, pywire


def py_encode_all(prog, values, scratch):
    """Encodes every value with the generated Python code of `prog`; returns list of bytes."""
    d = scratch.sub()
    main_path, paths = render.write_program(prog, d)
    drive.compile_program(paths, prog["order"], "py", d)
    mod = drive.load_py(d, prog["main"] + "_bp")
    try:
        cls = getattr(mod, prog["top"])
        out = []
        for v in values:
            o = cls()
            drive.py_set(o, prog["rtype"], v)
            out.append(bytes(o.encode()))
        return out
    finally:
        drive.unload_py(d)


def py_decode_all(prog, bufs, scratch):
    d = scratch.sub()
    main_path, paths = render.write_program(prog, d)
    drive.compile_program(paths, prog["order"], "py", d)
    mod = drive.load_py(d, prog["main"] + "_bp")
    try:
        cls = getattr(mod, prog["top"])
        out = []
        for b in bufs:
            o = cls()
            try:
                o.decode(bytearray(b))
                out.append(("ok", drive.py_get(o, prog["rtype"])))
            except Exception as exc:
                out.append(("raise", "%s@%s@decode-evolved" % drive.exc_signature(exc)))
        return out
    finally:
        drive.unload_py(d)


def main(tier, replay=None):
    rep = Report("C05", tier)
    seed = common.seed()
    rep.assumptions += [
        "only the two permitted steps (append field with larger number to an extensible message, grow an "
        "extensible array) at any depth; the claim is about what exists in the older schema",
        "the sender's bytes are checked against Wire!Enc of the newer schema before the receiver's result is judged",
        "Go runtime: not executed (no toolchain); its two skip formulas are read from lib/go/bitproto.go and evaluated "
        "by TLC against the specified targets over a bounded domain",
    ]
    inv = ("InBounds", "DecRefines", "WireRoundTrip")
    if tier == "quick":
        designlevel.codec_design(rep, "U_small depth1, 1 evolution step", depth=1, caps=(1, 2), leafset="small",
                                 evo=1, modes=("dec",), invariants=inv, properties=())
    else:
        designlevel.codec_design(rep, "U_small depth1, 2 evolution steps", depth=1, caps=(1, 3), leafset="small",
                                 evo=2, modes=("dec",), invariants=inv, properties=())
        designlevel.codec_design(rep, "U_small depth2 (leaf uint3), 1 evolution step", depth=2, caps=(1, 2), leafset="tiny",
                                 evo=1, modes=("dec",), invariants=inv, properties=())
    for variant in ("impl-old", "static"):
        r = designlevel.run_cfg("MC_Codec", designlevel.codec_cfg(
            depth=-1 if variant == "static" else 1, caps=(1, 2), leafset="small",
            evo=2 if variant == "static" else 1, modes=("dec",), skip=variant,
            invariants=("InBounds", "DecRefines"), properties=()))
        tlc.machinery_check(r, "negative control " + variant)
        if r.ok:
            raise common.MachineryError("negative control %s was not refuted: model is vacuous" % variant)
        rep.cov.setdefault("negative_controls_refuted", {})[variant] = r.violated

    nhist, nvalues = (150, 4) if tier == "quick" else (2500, 8)
    worker = cdrive.Worker()
    pycases, ccases = [], []
    try:
        with common.Scratch("c05") as scratch:
            builder = cdrive.CBuilder(scratch, cflags=("-O1",))
            chains = []
            for k in range(nhist):
                rng = random.Random("c05/%d/%d" % (seed, k))
                g = gen.RandSchema(rng, gen.Cfg(max_bits=rng.choice([80, 300, 1000]), p_ext=0.7,
                                                max_depth=3, p_empty_msg=0.0))
                base = g.build()
                if not gen.has_ext(base["rtype"]):
                    continue
                versions, descr = evolve.chain(base, rng, rng.randint(1, 3 if tier == "quick" else 6))
                if len(versions) < 2:
                    continue
                chains.append((k, versions, descr, rng))
                for s in descr:
                    rep.feature("step:" + s[0])
                rep.feature("chain-length-%d" % (len(versions) - 1))
            # directed family: the 16-bit prefix at every bit offset, announcing values that use all of its bits
            for idx, (kind, r_, a_) in enumerate(aheadsweep.family(tier)):
                o_, n_, descr = (aheadsweep.msg_pair if kind == "msg" else aheadsweep.arr_pair)(r_, a_)
                chains.append((100000 + idx, [o_, n_], descr, random.Random("c05-ahead/%d/%d" % (seed, idx))))
                rep.feature("prefix-sweep:%s" % kind)
            # Python runtime: newest (and intermediate) senders -> oldest receiver
            cjobs = []
            for k, versions, descr, rng in chains:
                old = versions[0]
                senders = [versions[-1]] if len(versions) == 2 else [versions[-1], versions[1]]
                pc = pywire.PyCase("c05-py-%d-%d" % (seed, k), old, [], note={"steps": descr})
                cc = cwire.CCase("c05-c-%d-%d" % (seed, k), old, [], note={"steps": descr})
                for snd in senders:
                    tS = snd["rtype"]
                    vals = [gen.gen_value(rng, tS, "ones")] + [gen.gen_value(rng, tS, "rand") for _ in range(nvalues - 1)]
                    try:
                        bufs = py_encode_all(snd, vals, scratch)
                    except Exception as exc:
                        pc.events.append({"ev": "Raise", "what": "%s@%s@sender" % drive.exc_signature(exc)})
                        pc.event_src.append(-1)
                        continue
                    res = py_decode_all(old, bufs, scratch)
                    for v, b, (st, got) in zip(vals, bufs, res):
                        pc.values.append(v)
                        if st == "raise":
                            pc.events.append({"ev": "Raise", "what": got})
                        else:
                            pc.events.append({"ev": "DecodeEvolved", "tS": gen.export_type(tS),
                                              "vS": gen.sm_tree(tS, v), "bytes": list(b),
                                              "v": gen.sm_tree(old["rtype"], got)})
                        pc.event_src.append(len(pc.values) - 1)
                    cjobs.append((cc, snd, vals, bufs))
                pycases.append(pc)
                ccases.append(cc)
            # C runtime: C sender of the newer schema, C receiver of the older one
            olds = cwire.prepare([c for c in ccases], scratch, builder)
            oldlib = {id(c): lib for c, lib in olds}
            snd_cases = [cwire.CCase("snd", snd, vals) for (cc, snd, vals, bufs) in cjobs]
            snd_built = cwire.prepare(snd_cases, scratch, builder)
            for (cc, snd, vals, bufs), (sc, slib) in zip(cjobs, snd_built):
                rlib = oldlib.get(id(cc))
                if rlib is None or slib is None:
                    cc.events += sc.events
                    cc.event_src += [-1] * len(sc.events)
                    continue
                top = snd["top"]
                job = {"so": slib.so, "enc": "Encode" + top, "dec": "Decode" + top, "json": None,
                       "sizeof": slib.sizeof, "buflen": slib.bytes_length, "guard": "none",
                       "ops": [["enc", slib.image(v).hex()] for v in vals]}
                st, res = worker.call(job)
                if st != "ok":
                    cc.events.append({"ev": "Fault", "what": "sender:%s:%s" % (st, res)})
                    cc.event_src.append(-1)
                    continue
                cbufs = [bytes.fromhex(r["buf"]) for r in res]
                # receiver gets the sender's full buffer (it may be longer than its own length)
                job = {"so": rlib.so, "enc": "Encode" + top, "dec": "Decode" + top, "json": None,
                       "sizeof": rlib.sizeof, "buflen": slib.bytes_length, "guard": "none",
                       "ops": [["dec", b.hex()] for b in cbufs]}
                st, res = worker.call(job)
                if st != "ok":
                    cc.events.append({"ev": "Fault", "what": "receiver:%s:%s" % (st, res)})
                    cc.event_src.append(-1)
                    continue
                for v, b, r in zip(vals, cbufs, res):
                    cc.values.append(v)
                    cc.events.append({"ev": "CDecodeEvolved", "tS": gen.export_type(snd["rtype"]),
                                      "vS": gen.sm_tree(snd["rtype"], v), "bytes": list(b),
                                      "mem": rlib.read_image(bytes.fromhex(r["mem"]))})
                    cc.event_src.append(len(cc.values) - 1)
    finally:
        worker.close()
    # Go runtime: not executable here -- its skip formulas are read from the source and TLC evaluates them
    # against the specified targets over a bounded domain (inspection made mechanical)
    import os
    from .. import goparse
    try:
        with open(os.path.join(common.REPO_LIBGO, "bitproto.go")) as f:
            defs = goparse.skip_formulas(f.read())
    except goparse.GoParseError as e:
        raise common.MachineryError("cannot read the Go skip formulas: %s" % e)
    gocase = pywire.PyCase("c05-go-skip", {"rtype": {"k": "msg", "name": "X", "ext": False, "fields": [
        {"num": 1, "name": "a", "t": {"k": "bool"}}, {"num": 2, "name": "b", "t": {"k": "bool"}}]},
        "files": {"lib/go/bitproto.go": []}, "top": "X"}, [])
    gocase.events.append({"ev": "GoSkip", "defs": defs})
    gocase.event_src.append(-1)
    pywire.validate_and_decide(rep, [gocase], count_events=("GoSkip",),
                               sample_fn=lambda c: {"go_skip_formulas": "arraySkip / messageSkip read from lib/go/bitproto.go"})
    rep.cov["rule"] = ("random extensible-rich base schemas x chains of 1..N permitted steps (steps biased to hit "
                       "nested/enclosing extensible nodes of the previous step) x values of the newer versions; "
                       "one evaluation = one decode of newer-schema bytes by older-schema code (Python and C); "
                       "distinct_nontrivial counts distinct base-schema shapes")

    def sample(c):
        e = [e for e in c.events if e["ev"] in ("DecodeEvolved", "CDecodeEvolved")]
        if e:
            return {"old_schema": pywire.program_text(c.prog), "steps": c.note.get("steps"),
                    "bytes_hex": bytes(e[-1]["bytes"]).hex()}
    pywire.validate_and_decide(rep, pycases, count_events=("DecodeEvolved",), sample_fn=sample)
    pywire.validate_and_decide(rep, ccases, count_events=("CDecodeEvolved",), sample_fn=sample)
    return rep.finish()
