"""C03 -- C standard mode writes/reads the same bytes as the specification and Python."""
from .. import cdrive, common, gen, tlc, usmall
from ..report import Report
from . import ccopycases, cwire, designlevel, pywire, ufull


def sigs(case, evt, clause):
    return []


def make_cases(seed, n, nvalues, tag, **cfg):
    cases = []
    for k in range(n):
        prog, rng = gen.rand_case(seed, k, **cfg)
        if k % 8 == 5:
            prog = gen.wrap_diamond(prog, rng)       # three files: app imports main and the file main imports
        if k % 4 == 3:
            # c.struct_packing_alignment changes the struct layout, never the wire
            mainf = prog["files"][prog["main"]]
            pi = [i for i, x in enumerate(mainf) if x["d"] == "proto"][0]
            mainf.insert(pi + 1, {"d": "option", "name": "c.struct_packing_alignment", "v": gen.lit(rng.choice([1, 2, 4, 8]))})
        t = prog["rtype"]
        vals = [gen.gen_value(rng, t, "zero"), gen.gen_value(rng, t, "ones")]
        vals += [gen.gen_value(rng, t, "rand") for _ in range(nvalues - 2)]
        cases.append(cwire.CCase("%s-%d-%d" % (tag, seed, k), prog, vals))
    return cases


def main(tier, replay=None):
    rep = Report("C03", tier)
    seed = common.seed()
    rep.assumptions += [
        "resolved type used by the spec is the generator's intended type tree",
        "values in range, zero-initialised struct on decode, zero-filled output buffer on encode",
        "projection: leaf storage read/written at offsetof()/sizeof() positions reported by gcc for the generated header",
    ]
    # design level: same cursor machine as Python (Codec) -- encode and decode refine Wire
    designlevel.codec_design(rep, "U_small depth1 enc+dec", depth=1, caps=(1, 5), leafset="small",
                             evo=0, modes=("enc", "dec"),
                             invariants=("InBounds", "EncRefines", "DecRefines", "ChunkShape"), properties=())
    r = designlevel.run_cfg("MC_CCopy", open(common.SPEC + "/MC_CCopy.cfg").read(), coverage=True)
    tlc.machinery_check(r, "MC_CCopy")
    rep.add_tlc(r, "design:CCopy (BpCopyBufferBits fast paths) refines the bit copy, n<=80 x di x si")
    if not r.ok:
        raise common.MachineryError("MC_CCopy violated: %s" % r.violated)
    if tier == "quick":
        configs = [(("-O0",), False), (("-O2",), True)]
        n, nv = 100, 5
    else:
        configs = [(("-O0",), False), (("-O1",), True), (("-O2",), False), (("-O3",), True),
                   (("-O2",), True), (("-O3",), False)]
        n, nv = 700, 10
    worker = cdrive.Worker()
    try:
        with common.Scratch("c03") as scratch:
            for cflags in ((("-O2",),) if tier == "quick" else (("-O0",), ("-O1",), ("-O2",), ("-O3",))):
                traces = ccopycases.copy_traces(scratch, worker, False, 40 if tier == "quick" else 80, seed, cflags=cflags)
                verdicts, r = tlc.validate_traces("WireTrace", "WireTrace.cfg", traces)
                rep.add_tlc(r, "trace-validation:BpCopyBufferBits " + "".join(cflags))
                rep.cov["traces_validated_against_impl"] += len(traces)
                for tr, (ok, why) in zip(traces, verdicts):
                    rep.count("evaluations", len(tr["events"]))
                    if not ok:
                        idx = int(why.split(":")[0]) - 1
                        rep.decide({"event": tr["events"][idx], "cflags": cflags}, "BpCopyBufferBits: " + why, [])
            # direction spec -> code: the complete universe U_small with its basis values, written by TLC
            builder = cdrive.CBuilder(scratch, cflags=("-O1",))
            ucases = [cwire.CCase("c03-usmall-%d" % k, prog, vals)
                      for k, prog, vals in usmall.programs(rep, tier, "generated C + lib/c (gcc -O1)")]
            for c, lib in cwire.prepare(ucases, scratch, builder):
                if lib is not None:
                    cwire.drive_case(c, lib, worker, want=("enc", "dec", "size"))
                rep.feature("u_small")
            pywire.validate_and_decide(rep, ucases, sig_fn=sigs, count_events=("CEncode", "CDecode"))
            # schemas on which "wire size == 8 * sizeof" holds by coincidence (whole-width integers, nibbles, power-of-two
            # capacities, many extensible markers): where a fast path keyed on such an equality would go wrong
            builder = cdrive.CBuilder(scratch, cflags=("-O2",))
            kcases = make_cases(seed + 77000, 120 if tier == "quick" else 1500, 3, "c03-coincidence",
                                max_bits=400, max_depth=3, **gen.COINCIDENCE)
            import random as _random
            for gi, gp in enumerate(ufull.grid_progs(None if tier != "quick" else [4, 6, 7, 12, 24, 28, 56, 60])):
                grng = _random.Random("c03grid/%d/%d" % (seed, gi))
                kcases.append(cwire.CCase("c03-grid-%d" % gi, gp, [gen.gen_value(grng, gp["rtype"], "ones"),
                                                                   gen.gen_value(grng, gp["rtype"], "rand")]))
            for c, lib in cwire.prepare(kcases, scratch, builder):
                if lib is not None:
                    cwire.drive_case(c, lib, worker, want=("enc", "dec", "size"))
                rep.feature("coincidence-profile")
            pywire.validate_and_decide(rep, kcases, sig_fn=sigs, count_events=("CEncode", "CDecode"))
            for ci, (cflags, single_tu) in enumerate(configs):
                builder = cdrive.CBuilder(scratch, cflags=cflags)
                cases = make_cases(seed + 1000 * ci, n, nv, "c03-%s-%s" % ("".join(cflags), "tu1" if single_tu else "sep"),
                                   max_depth=3)
                built = cwire.prepare(cases, scratch, builder, single_tu=single_tu)
                for c, lib in built:
                    if lib is not None:
                        cwire.drive_case(c, lib, worker, want=("enc", "dec", "widths", "size"))
                    for f in gen.features(c.prog["rtype"]):
                        rep.feature(f)
                    rep.feature("cfg:%s:%s" % ("".join(cflags), "single-tu" if single_tu else "separate-tu"))

                def sample(c):
                    e = [e for e in c.events if e["ev"] == "CEncode"]
                    if e:
                        return {"schema": pywire.program_text(c.prog), "value": c.values[-1],
                                "bytes_hex": bytes(e[-1]["bytes"]).hex(), "cflags": list(cflags),
                                "single_translation_unit": single_tu}
                pywire.validate_and_decide(rep, cases, sig_fn=sigs, count_events=("CEncode", "CDecode"),
                                           sample_fn=sample)
    finally:
        worker.close()
    rep.cov["rule"] = ("U_rand schemas x values through gcc-built generated C + lib/c/bitproto.c, per "
                       "(optimisation level, build layout); one evaluation is one Encode or Decode call; "
                       "distinct_nontrivial counts distinct schema shapes with >= 2 fields or a composite field")
    return rep.finish()
