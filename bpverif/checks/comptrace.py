"""Shared machinery for the checks that validate the compiler front end against Compiler.tla."""
import os
import re
from concurrent.futures import ThreadPoolExecutor

from .. import common, drive, prog as P, render, tlc


def run_cli_many(jobs, nthreads=16):
    """jobs: list of (args, cwd); returns list of (rc, stdout, stderr)."""
    def one(j):
        args, cwd = j
        return drive.cli(args, cwd=cwd)
    with ThreadPoolExecutor(max_workers=nthreads) as ex:
        return list(ex.map(one, jobs))


def cli_event(rc, stderr, outdir):
    nfiles = len([f for f in os.listdir(outdir)]) if os.path.isdir(outdir) else 0
    return {"ev": "Cli", "exit": rc, "nfiles": nfiles, "traceback": "Traceback (most recent call last)" in stderr}


def make_trace(tid, pr, d, trad=False, want=("msgs", "consts", "refs", "lines"), lay=None, extra_obs=None):
    """Renders the program into directory d, observes the in-process parse, returns the trace
    (the spec program plus observations) and the parsed proto (or None)."""
    main_path, paths = render.write_program(pr, d, lay)
    proto, outcome = P.observe_parse(main_path, trad=trad)
    obs = [outcome, {"ev": "Terminates"}]
    if proto is not None:
        obs += P.observe_accepted(proto, want=want)
    if extra_obs:
        obs += extra_obs
    sp = P.spec_program(pr, trad=trad)
    sp["id"] = tid
    sp["obs"] = obs
    return sp, proto, main_path


def validate(traces, workers=16, timeout=3000):
    """Returns list of dicts {ok, why, status, kind} and the TlcResult."""
    verdicts, r = tlc.validate_traces("CompilerTrace", "CompilerTrace.cfg", traces, workers=workers, timeout=timeout)
    out = []
    for ok, rest in verdicts:
        parts = rest.rsplit("|", 2)
        why = parts[0] if len(parts) == 3 else rest
        out.append({"ok": ok, "why": why, "status": parts[1] if len(parts) == 3 else "",
                    "kind": parts[2] if len(parts) == 3 else ""})
    return out, r


def resolved_types(r):
    """Resolved types printed by WantType events: {(tid, event index): type json}."""
    import json
    out = {}
    for s in r.lines:
        if s.startswith("R|"):
            _, tid, l, js = s.split("|", 3)
            out[(int(tid) - 1, int(l) - 1)] = json.loads(js)
    return out
