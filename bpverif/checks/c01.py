"""C01 -- the Python encoder emits exactly the specified bit layout."""
from .. import common, drive, gen, tlc, usmall
from ..report import Report
from . import designlevel, pywire


def rng_small(k):
    return [40, 120, 300][k % 3]


def main(tier, replay=None):
    rep = Report("C01", tier)
    seed = common.seed()
    rep.assumptions += [
        "resolved type used by the spec is the generator's intended type tree",
        "values are in range (checked by the spec's AllInRange); the encoder gets a zeroed buffer",
        "projection: Python int -> sign-magnitude bit list, bytes -> list of ints",
    ]
    # --- design level: the cursor machine refines the documented layout ---
    if tier == "quick":
        designlevel.codec_design(rep, "U_small depth1 enc", depth=1, caps=(1, 5), leafset="small",
                                 evo=0, modes=("enc",), invariants=("InBounds", "EncRefines", "ChunkShape"))
    else:
        designlevel.codec_design(rep, "U_small depth2 enc (leaf uint3)", depth=2, caps=(1, 5), leafset="tiny",
                                 evo=0, modes=("enc",), invariants=("InBounds", "EncRefines", "ChunkShape"))
        designlevel.codec_design(rep, "U_small depth1 wide enc", depth=1, caps=(1, 2, 6), leafset="wide",
                                 evo=0, modes=("enc",), invariants=("InBounds", "EncRefines", "ChunkShape"))
    # unbounded: the chunk arithmetic for every width and stream position (Apalache, inductive invariant)
    designlevel.copy_loop_unbounded(rep)
    # --- conformance: U_rand schemas x values through the real compiler + runtime ---
    nschemas, nvalues = (300, 6) if tier == "quick" else (4000, 16)
    rec = drive.StepRecorder()
    rec.install()
    cases = []
    with common.Scratch("c01") as scratch:
        for k in range(nschemas):
            prog, rng = gen.rand_case(seed, k, big_arrays=(k % 10 == 0))
            if k % 8 == 3:
                prog = gen.wrap_diamond(prog, rng)   # three files: app imports main and the file main imports
            t = prog["rtype"]
            vals = [gen.gen_value(rng, t, "zero"), gen.gen_value(rng, t, "ones")]
            vals += [gen.gen_value(rng, t, "rand") for _ in range(nvalues - 2)]
            c = pywire.PyCase("c01-%d-%d" % (seed, k), prog, vals)
            pywire.run_case(c, scratch, want=("encode", "size"), recorder=None)
            cases.append(c)
            for f in gen.features(t):
                rep.feature(f)
        # --- direction spec -> code: the complete universe U_small with its basis values, written by TLC
        for k, prog, vals in usmall.programs(rep, tier, "the Python encoder"):
            c = pywire.PyCase("c01-usmall-%d" % k, prog, vals)
            pywire.run_case(c, scratch, want=("encode", "size"), recorder=None)
            cases.append(c)
            rep.feature("u_small")
    # --- step-level binding (informational, never a verdict): the recorded chunk / enter / leave
    # sequence of real encode() and decode() calls is replayed through the ACTIONS of Codec.tla
    step_info = {"available": rec.available}
    if rec.available:
        scases = []
        with common.Scratch("c01s") as scratch:
            for k in range(40 if tier == "quick" else 400):
                prog, rng = gen.rand_case(seed, 900000 + k, max_bits=rng_small(k))
                t = prog["rtype"]
                c = pywire.PyCase("c01-steps-%d" % k, prog, [gen.gen_value(rng, t, "ones"), gen.gen_value(rng, t, "rand")])
                pywire.run_case(c, scratch, want=("encode", "decode", "steps"), recorder=rec)
                scases.append(c)
        straces = [{"id": c.cid, "t": gen.export_type(c.prog["rtype"]), "mode": s["mode"], "v": s["v"],
                    "bytes": s["bytes"], "steps": s["steps"]} for c in scases for s in c.steps]
        if straces:
            sv, sr = tlc.validate_traces("CodecTrace", "CodecTrace.cfg", straces)
            rep.add_tlc(sr, "step-level trace validation through Codec's actions (informational)")
            bad = [(tr["id"], tr["mode"], why) for tr, (ok, why) in zip(straces, sv) if not ok]
            step_info.update({"runs": len(straces), "events": sum(len(tr["steps"]) for tr in straces),
                              "runs_not_following_the_machine": len(bad), "first": bad[:3]})
    rep.cov["step_level_binding"] = step_info
    traces = [pywire.trace_of(c) for c in cases]
    verdicts, r = tlc.validate_traces("WireTrace", "WireTrace.cfg", traces)
    rep.add_tlc(r, "trace-validation")
    rep.cov["traces_validated_against_impl"] = len(traces)
    rep.cov["rule"] = ("U_rand top-down schema generator (seeded) x values {zero, all-ones/min, boundary-biased random}; "
                       "a case is one (schema, value) encode; distinct_nontrivial counts distinct schema shapes "
                       "(names dropped) having >= 2 fields or a composite field")
    for c, (ok, why) in zip(cases, verdicts):
        rep.count("evaluations", len([e for e in c.events if e["ev"] == "Encode"]))
        t = c.prog["rtype"]
        nontrivial = len(t["fields"]) >= 2 or any(not gen.is_leaf(gen.strip(f["t"])) for f in t["fields"])
        rep.distinct(gen.shape_key(t), nontrivial)
        if ok:
            if c.events:
                e = [e for e in c.events if e["ev"] == "Encode"]
                if e:
                    rep.sample({"schema": pywire.program_text(c.prog), "value": c.values[-1],
                                "bytes_hex": bytes(e[-1]["bytes"]).hex()})
            continue
        if why.split(":", 1)[-1].startswith("machinery"):
            raise common.MachineryError("trace %s: %s" % (c.cid, why))
        idx = int(why.split(":")[0]) - 1
        evt = c.events[idx]
        case = {"id": c.cid, "schema": pywire.program_text(c.prog), "rtype": gen.export_type(t),
                "event": evt, "seed": seed}
        rep.decide(case, "event %s: %s" % (evt["ev"], why), sigs=[])
    return rep.finish()
