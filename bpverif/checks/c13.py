"""C13 -- constants evaluate arithmetically and reach every target language intact."""
import os
import random
import re
import subprocess

from .. import common, drive, gen, prog as P, render
from ..report import Report
from . import comptrace, designlevel
from .. import tlc

LITS = [0, 1, 2, 3, 7, 10, 16, 255, 100, 1000, 65535]


def gen_expr(rng, consts, depth=0, budget=None):
    """Random token list by the documented grammar (atoms: literals, earlier constants, groups)."""
    def atom(d):
        r = rng.random()
        if r < 0.2 and consts:
            return [["ref", list(rng.choice(consts))]]
        if r < 0.35 and d < 3:
            return [["lp"]] + expr(d + 1) + [["rp"]]
        v = rng.choice(LITS)
        return [["int", v, "hex"] if rng.random() < 0.25 else ["int", v]]

    def term(d):
        t = atom(d)
        while rng.random() < 0.35:
            t += [["op", rng.choice("*/")]] + atom(d)
        return t

    def expr(d):
        t = term(d)
        while rng.random() < 0.4:
            t += [["op", rng.choice("++-")]] + term(d)
        return t
    return expr(depth)


ESC = {"t": "\t", "r": "\r", "n": "\n", "\\": "\\", "'": "'", '"': '"'}


def gen_string(rng):
    """(source text between the quotes, denoted value) over the lexer's alphabet and escapes."""
    src, val = "", ""
    last_backslash = False
    # mostly short; now and then around the sizes at which emitters split or bound literals (509, 1024, 4095)
    n = rng.randint(0, 12) if rng.random() < 0.93 else rng.choice([505, 509, 510, 600, 1020, 1030]) + rng.randint(0, 8)
    for _ in range(n):
        r = rng.random()
        if r < 0.3:
            e = rng.choice(list(ESC))
            src += "\\" + e
            val += ESC[e]
            last_backslash = (e == "\\")
        else:
            # after an escaped backslash the letters of the other escapes are the interesting ones
            pool = "trn" if last_backslash and rng.random() < 0.6 else "abctrnXYZ019 _-+*/%$#@!?.,:;()[]{}<>=&|^~`'"
            ch = rng.choice(pool)
            if rng.random() < 0.08:
                # beyond ASCII: two- and three-byte characters, and characters outside the Basic Multilingual Plane
                ch = rng.choice(["\u00e9", "\u4e2d", "\u20ac", "\U0001f680", "\U00020000", "\u00ff", "\u0100"])
            src += ch
            val += ch
            last_backslash = False
    return src, val


def steer_value(toks, env):
    """Value of a token list by Python's own arithmetic -- used ONLY to steer the generator towards
    programs the compiler accepts (the specification decides every verdict)."""
    text = []
    for t in toks:
        if t[0] == "int":
            text.append(str(t[1]))
        elif t[0] == "ref":
            v = env.get(tuple(t[1]))
            if v is None:
                return None
            text.append("(%d)" % v)
        elif t[0] == "op":
            text.append("//" if t[1] == "/" else t[1])
        else:
            text.append("(" if t[0] == "lp" else ")")
    try:
        return int(eval(" ".join(text), {"__builtins__": {}}))
    except Exception:
        return None


def tame_expr(rng, consts, env, wild):
    for _ in range(30):
        toks = gen_expr(rng, consts)
        v = steer_value(toks, env)
        if wild or (v is not None and 0 <= v < 2 ** 28):
            return toks, v
    return [["int", 1]], 1


def const_program(rng, k):
    """A main file (and sometimes a lib) made of constants, plus a message using some of them as
    array capacities and as an option value."""
    lib, main = [], []
    ints_main, ints_lib = [], []
    env = {}
    wild = rng.random() < 0.15
    has_lib = rng.random() < 0.5
    if has_lib:
        for i in range(rng.randint(1, 4)):
            name = "L%s" % gen.letters(i).upper()
            toks, v = tame_expr(rng, ints_lib, {(p[-1],): env.get(("lib", p[-1])) for p in ints_lib}, wild)
            lib.append({"d": "const", "name": name, "v": {"e": "toks", "toks": toks,
                                                          "glue": rng.choice(["spaced", "spaced", "tight", "left", "right"])}})
            ints_lib.append([name])
            env[("lib", name)] = v
    visible = [["lib"] + p for p in ints_lib]
    n = rng.randint(4, 12)
    for i in range(n):
        name = "K%s" % gen.letters(i).upper()
        r = rng.random()
        if r < 0.65:
            toks, v = tame_expr(rng, visible, env, wild)
            main.append({"d": "const", "name": name, "v": {"e": "toks", "toks": toks,
                                                           "glue": rng.choice(["spaced", "spaced", "tight", "left", "right"])}})
            visible.append([name])
            env[(name,)] = v
        elif r < 0.8:
            src, val = gen_string(rng)
            main.append({"d": "const", "name": name, "v": {"e": "str", "src": src, "val": val}})
        elif r < 0.9:
            text = rng.choice(["true", "false", "yes", "no"])
            main.append({"d": "const", "name": name, "v": {"e": "bool", "v": text in ("true", "yes"), "text": text}})
        else:
            # a plain reference (any kind of constant may be referenced)
            prev = [d["name"] for d in main if d["d"] == "const"]
            if prev:
                main.append({"d": "const", "name": name, "v": {"e": "ref", "path": [rng.choice(prev)]}})
    body = []
    small = [p for p in visible if wild or (env.get(tuple(p)) is not None and 1 <= env[tuple(p)] <= 300)]
    use = [p for p in small if rng.random() < 0.6][:4]
    for i, p in enumerate(use):
        body.append({"d": "field", "name": "a_%s" % gen.letters(i), "num": i + 1,
                     "t": {"k": "array", "elem": {"k": "uint", "n": 3}, "cap": {"e": "ref", "path": p}, "ext": False}})
    if not body:
        body.append({"d": "field", "name": "x", "num": 1, "t": {"k": "bool"}})
    big = [p for p in visible if wild or (env.get(tuple(p)) or 0) >= 500 or env.get(tuple(p)) == 0]
    if big and rng.random() < 0.4:
        body.insert(0, {"d": "option", "name": "max_bytes", "v": {"e": "ref", "path": rng.choice(big)}})
    main.append({"d": "message", "name": "Top", "ext": False, "body": body})
    files = {}
    order = []
    if has_lib:
        files["lib"] = [{"d": "proto", "name": "lib"}] + lib
        order.append("lib")
        files["main"] = [{"d": "proto", "name": "main"}, {"d": "import", "file": "lib", "as": None}] + main
    else:
        files["main"] = [{"d": "proto", "name": "main"}] + main
    order.append("main")
    return {"files": files, "order": order, "main": "main", "top": "Top"}


def lit_event(lang, file, name, v):
    if isinstance(v, bool):
        return {"ev": "ConstLit", "lang": lang, "file": file, "name": name, "vt": "bool", "v": v}
    if isinstance(v, int):
        if not (-2 ** 30 < v < 2 ** 30):
            return None
        return {"ev": "ConstLit", "lang": lang, "file": file, "name": name, "vt": "int", "v": v}
    if isinstance(v, bytes):
        return {"ev": "ConstLit", "lang": lang, "file": file, "name": name, "vt": "str", "v": list(v)}
    return {"ev": "ConstLit", "lang": lang, "file": file, "name": name, "vt": "str",
            "v": list(str(v).encode("utf8", "surrogatepass"))}


GO_CONST = re.compile(r'^const\s+(\w+)(?:\s+(\w+))?\s*=\s*(.+?)\s*$', re.M)
GO_ESC = {"n": "\n", "r": "\r", "t": "\t", "\\": "\\", '"': '"', "'": "'", "a": "\a", "b": "\b", "f": "\f", "v": "\v"}


def go_string(lit):
    """Value of a Go interpreted string literal (Go's lexical rules), or None if malformed."""
    if len(lit) < 2 or lit[0] != '"' or lit[-1] != '"':
        return None
    s, out, i = lit[1:-1], "", 0
    while i < len(s):
        ch = s[i]
        if ch == '"' or ch == "\n":
            return None
        if ch == "\\":
            i += 1
            if i >= len(s) or s[i] not in GO_ESC or s[i] == "'":
                return None
            out += GO_ESC[s[i]]
        else:
            out += ch
        i += 1
    return out


def observe_literals(pr, d, consts_by_file):
    """What the emitted literals denote in Python (import), C (compile + run a probe) and Go
    (literal read by Go's lexical rules).  Returns list of events."""
    evs = []
    paths = {n: os.path.join(d, n + ".bitproto") for n in pr["files"]}
    for lang in ("py", "c", "go"):
        try:
            drive.compile_program(paths, pr["order"], lang, d)
        except Exception as exc:
            evs.append({"ev": "Raise", "what": "%s@%s@render-%s" % (drive.exc_signature(exc) + (lang,))})
            return evs
    # Python
    try:
        mods = {n: drive.load_py(d, n + "_bp") for n in pr["order"]}
        for f, names in consts_by_file.items():
            for name in names:
                if not hasattr(mods[f], name):
                    evs.append({"ev": "ConstMissing", "lang": "py", "file": f, "name": name})
                    continue
                e = lit_event("py", f, name, getattr(mods[f], name))
                if e:
                    evs.append(e)
    except Exception as exc:
        evs.append({"ev": "Raise", "what": "%s@%s@import-py" % drive.exc_signature(exc)})
    finally:
        drive.unload_py(d)
    # C: a probe prints what each macro denotes
    for f, names in consts_by_file.items():
        if not names:
            continue
        src = ['#include <stdio.h>', '#include <string.h>', '#include "%s_bp.h"' % f,
               '#define BPV_KIND(x) _Generic((x), char *: 2, const char *: 2, _Bool: 1, default: 0)',
               'static void bpv_s(const char *n, const char *s) { printf("%s s ", n); '
               'for (size_t k = 0; k < strlen(s); k++) printf("%02x", (unsigned char)s[k]); printf("\\n"); }',
               'static void bpv_i(const char *n, long long v, int b) { printf("%s %s %lld\\n", n, b ? "b" : "i", v); }',
               'int main(void) {']
        for name in names:
            src.append('#ifdef %s' % name)
            src.append('  if (BPV_KIND(%s) == 2) bpv_s("%s", (const char *)(size_t)(%s)); '
                       'else bpv_i("%s", (long long)(size_t)(%s), BPV_KIND(%s) == 1);' % (name, name, name, name, name, name))
            src.append('#else')
            src.append('  printf("%s missing\\n");' % name)
            src.append('#endif')
        src += ['  return 0;', '}']
        cfile = os.path.join(d, "bpv_const_%s.c" % f)
        with open(cfile, "w") as fh:
            fh.write("\n".join(src) + "\n")
        exe = os.path.join(d, "bpv_const_%s" % f)
        p = subprocess.run(["gcc", "-w", "-I", common.REPO_LIBC, "-I", d, cfile, "-o", exe], capture_output=True, text=True)
        if p.returncode != 0:
            first = [l for l in p.stderr.splitlines() if "error" in l][:1]
            evs.append({"ev": "Fault", "what": "c-header-does-not-compile:" + (first[0][-150:] if first else "")})
            continue
        p = subprocess.run([exe], capture_output=True, text=True, timeout=1800)
        with open(os.path.join(d, f + "_bp.h")) as fh:
            macro_text = dict(re.findall(r"^#define\s+(\w+)\s+(.*?)\s*$", fh.read(), re.M))
        for line in p.stdout.splitlines():
            parts = line.split(" ")
            name, kind = parts[0], parts[1]
            if kind == "missing":
                evs.append({"ev": "ConstMissing", "lang": "c", "file": f, "name": name})
            elif kind == "s":
                evs.append(lit_event("c", f, name, bytes.fromhex(parts[2] if len(parts) > 2 else "")))
            elif kind == "b":
                evs.append(lit_event("c", f, name, bool(int(parts[2]))))
            elif macro_text.get(name) in ("true", "false"):
                # C's true/false are the integers 1/0: the spelling says it is a boolean
                evs.append(lit_event("c", f, name, bool(int(parts[2]))))
            else:
                e = lit_event("c", f, name, int(parts[2]))
                if e:
                    evs.append(e)
    # Go: read the literal text
    for f, names in consts_by_file.items():
        with open(os.path.join(d, f + "_bp.go")) as fh:
            found = {m.group(1): m.group(3) for m in GO_CONST.finditer(fh.read())}
        for name in names:
            if name not in found:
                evs.append({"ev": "ConstMissing", "lang": "go", "file": f, "name": name})
                continue
            lit = found[name]
            if lit in ("true", "false"):
                evs.append(lit_event("go", f, name, lit == "true"))
            elif re.fullmatch(r"-?[0-9]+", lit):
                e = lit_event("go", f, name, int(lit))
                if e:
                    evs.append(e)
            else:
                v = go_string(lit)
                if v is None:
                    evs.append({"ev": "Fault", "what": "go-literal-malformed:%s" % lit[:60]})
                else:
                    evs.append(lit_event("go", f, name, v))
    return evs


def main(tier, replay=None):
    rep = Report("C13", tier)
    seed = common.seed()
    rep.assumptions += [
        "non-negative literals; a division with a negative operand or a value beyond 2^30 is out of the model "
        "(reported as skipped); division by zero has no value and must be rejected as a parser error",
        "strings over the lexer's alphabet and its six escapes (ASCII, plus a few two-, three- and four-byte UTF-8 characters); the value denoted by an emitted literal is "
        "read by importing the Python module, by compiling and running a C probe, and by Go's lexical rules",
    ]
    r = designlevel.run_cfg("MC_Expr", open(common.SPEC + "/MC_Expr.cfg").read(), timeout=600)
    tlc.machinery_check(r, "MC_Expr")
    rep.add_tlc(r, "design:EvalCalc vs arithmetic templates (precedence, associativity, grouping, references, errors)")
    if not r.ok:
        raise common.MachineryError("MC_Expr violated: %s" % r.violated)
    n = 250 if tier == "quick" else 5000
    traces, progs = [], []
    nexpr = 0
    with common.Scratch("c13") as scratch:
        for k in range(n):
            rng = random.Random("c13/%d/%d" % (seed, k))
            pr = const_program(rng, k)
            d = scratch.sub()
            tr, proto, main_path = comptrace.make_trace("c13-%d-%d" % (seed, k), pr, d, want=("msgs", "consts"))
            if proto is not None:
                consts_by_file = {f: [x["name"] for x in ds if x["d"] == "const"] for f, ds in pr["files"].items()}
                tr["obs"] += observe_literals(pr, d, consts_by_file)
            nexpr += sum(1 for ds in pr["files"].values() for x in ds if x["d"] == "const")
            traces.append(tr)
            progs.append(pr)
        verdicts, r = comptrace.validate(traces)
    rep.add_tlc(r, "trace-validation:Compiler machine over constant programs")
    rep.cov["traces_validated_against_impl"] = len(traces)
    rep.cov["constants_declared"] = nexpr
    for tr, pr, v in zip(traces, progs, verdicts):
        rep.count("evaluations", len([e for e in tr["obs"] if e["ev"] in ("Const", "ConstLit")]))
        rep.feature("spec:" + v["status"] + (":" + v["kind"] if v["kind"] else ""))
        for ds in pr["files"].values():
            for x in ds:
                if x["d"] == "const" and x["v"]["e"] == "toks":
                    rep.distinct(render.expr_text(x["v"]), len(x["v"]["toks"]) >= 3)
        if v["ok"]:
            if v["status"] == "accepted":
                rep.sample({"schema": {n_: render.render_file(ds) for n_, ds in pr["files"].items()},
                            "observed": [e for e in tr["obs"] if e["ev"] in ("Const", "ConstLit")][:8]})
            continue
        clause = v["why"].split(":", 1)[-1]
        if clause.startswith("skip"):
            rep.count("skipped:" + clause.split(":")[1])
            continue
        if clause.startswith("machinery"):
            raise common.MachineryError("trace %s: %s" % (tr["id"], v["why"]))
        idx = int(v["why"].split(":")[0]) - 1
        case = {"id": tr["id"], "schema": {n_: render.render_file(ds) for n_, ds in pr["files"].items()},
                "spec_verdict": v["status"] + ":" + v["kind"], "event": tr["obs"][idx], "seed": seed}
        rep.decide(case, v["why"], [])
    rep.cov["rule"] = ("random constant programs: token-list expressions by the documented grammar over boundary "
                       "literals (decimal and hex), groups and references to earlier (also imported) constants; "
                       "strings with every supported escape; booleans; constants used as array capacities and option "
                       "values; one evaluation = one constant value observed (parser, Python, C, Go); "
                       "distinct_nontrivial counts distinct expression texts of >= 3 tokens")
    return rep.finish()
