"""C14 -- every width x bit offset x signedness x position is bit-exact in every runtime."""
import random

from .. import cdrive, common, gen, tlc
from ..report import Report
from . import cwire, designlevel, pywire, ufull


def std_width(T):
    return gen.leaf_bits(T) in (8, 16, 32, 64)


def main(tier, replay=None):
    rep = Report("C14", tier)
    seed = common.seed()
    reduced = tier == "quick"
    rep.assumptions += [
        "big-endian runtime build is emulated on this little-endian host by laying every leaf's storage out "
        "big-endian; decode of signed widths other than 8/16/32/64 cannot be emulated (native sign fix-up) and is "
        "checked only in the little-endian builds",
        "optimization-mode big-endian branch is value based and is run on native storage",
    ]
    # design level: U_full through the cursor machine (wide leaf set, every offset via pad)
    designlevel.codec_design(rep, "wide leaves, depth1", depth=1, caps=(1, 2), leafset="wide", evo=0,
                             modes=("enc", "dec"),
                             invariants=("InBounds", "EncRefines", "DecRefines", "ChunkShape"), properties=())
    # unbounded: the chunk arithmetic for every width and stream position (Apalache, inductive invariant)
    designlevel.copy_loop_unbounded(rep)
    types = gen.ufull_leaf_types()
    pycases, progs = [], {}
    with common.Scratch("c14") as scratch:
        # ---- Python runtime ----
        for T in types:
            prog = ufull.ufull_prog(T)
            key = "%s%s" % (T["k"], T.get("n", ""))
            progs[key] = prog
            rng = random.Random("c14/%d/%s" % (seed, key))
            vals = [ufull.fill(prog["rtype"], x, p) for x, p in ufull.ufull_values(T, reduced)]
            vals += ufull.mixed_values(T, rng, prog, 1 if reduced else 3)
            c = pywire.PyCase("c14-py-" + key, prog, vals)
            pywire.run_case(c, scratch, want=("encode", "decode"))
            pycases.append(c)
            rep.feature("type:" + key)
        pywire.validate_and_decide(rep, pycases, count_events=("Encode", "Decode"))
        rep.count("leaf_cases_python", sum(len(c.values) for c in pycases) * 60)
        # ---- C runtime and optimization-mode code ----
        worker = cdrive.Worker()
        try:
            if reduced:
                configs = [("std", ("-O2",), False), ("std-be", ("-O0",), True),
                           ("opt", ("-O2",), False), ("opt-be", ("-O2",), True)]
            else:
                configs = [("std", ("-O0",), False), ("std", ("-O2",), False),
                           ("std-be", ("-O0",), True), ("std-be", ("-O2",), True),
                           ("opt", ("-O0",), False), ("opt", ("-O2",), False),
                           ("opt-be", ("-O0",), True), ("opt-be", ("-O2",), True)]
            import shutil as _shutil
            if _shutil.which("clang") is not None:
                # big-endian memory semantics for every integer object (bpverif/beir.py): the decode of every signed
                # width is decided under it as well
                configs = configs + [("std-trueBE", ("-O0",), True), ("opt-trueBE", ("-O0",), True)]
            for mode, cflags, be in configs:
                if mode.endswith("trueBE"):
                    builder = cdrive.BEBuilder(scratch)
                else:
                    builder = cdrive.CBuilder(scratch, cflags=cflags, defines=(("BP_BIG_ENDIAN",) if be else ()))
                cases = []
                for T in types:
                    key = "%s%s" % (T["k"], T.get("n", ""))
                    prog = progs[key]
                    rng = random.Random("c14c/%d/%s" % (seed, key))
                    vals = [ufull.fill(prog["rtype"], x, p) for x, p in ufull.ufull_values(T, reduced)]
                    vals += ufull.mixed_values(T, rng, prog, 1 if reduced else 3)
                    cases.append(cwire.CCase("c14-%s-%s-%s" % (mode, "".join(cflags), key), prog, vals,
                                             note={"T": T, "mode": mode}))
                built = cwire.prepare(cases, scratch, builder, optimize=mode.startswith("opt"))
                for c, lib in built:
                    if lib is None:
                        continue
                    T = c.note["T"]
                    be_storage = mode in ("std-be", "std-trueBE", "opt-trueBE")
                    want = ["enc", "widths"]
                    if not (mode == "std-be" and T["k"] == "int" and not std_width(T)):
                        want.append("dec")
                    cwire.drive_case(c, lib, worker, want=tuple(want), be=be_storage)
                    rep.feature("c:%s:%s" % (mode, "".join(cflags)))
                pywire.validate_and_decide(rep, cases, count_events=("CEncode", "CDecode"))
        finally:
            worker.close()
    rep.cov["exhaustive"] = not reduced
    rep.cov["rule"] = ("complete space {bool, byte, uint1..64, int1..64} x start offsets 0..7 x {scalar, aliased scalar, "
                       "array element (cap 5: batch path for 8/16/32/64), aliased array, array of alias} x basis values "
                       "{0, all ones, each single bit, min, max} (quick tier: reduced bit set) plus mixed random "
                       "values; runtimes: Python, C standard mode LE and -DBP_BIG_ENDIAN, C -O mode both branches, and both C modes "
                       "built with big-endian memory semantics (clang IR, byte-swapped integer accesses); "
                       "distinct_nontrivial counts distinct leaf types")
    return rep.finish()
