"""C06 -- the wire is little-endian whatever the host byte order."""
import random

from .. import cdrive, common, gen, tlc
from ..report import Report
from . import ccopycases, cwire, designlevel, pywire, ufull


def std_width(T):
    return gen.leaf_bits(T) in (8, 16, 32, 64)


def cap_sweep_prog(T, caps):
    """Arrays of T with every capacity in caps (per-element and batch paths), pads in between."""
    body, fields = [], []
    num = 0
    for i, c in enumerate(caps):
        num += 1
        w = 1 + (i * 3) % 7
        body.append({"d": "field", "name": "pad_%d" % c, "num": num, "t": {"k": "uint", "n": w}})
        fields.append({"num": num, "name": "pad_%d" % c, "t": {"k": "uint", "n": w}})
        num += 1
        body.append({"d": "field", "name": "a_%d" % c, "num": num,
                     "t": {"k": "array", "elem": dict(T), "cap": gen.lit(c), "ext": False}})
        fields.append({"num": num, "name": "a_%d" % c, "t": {"k": "array", "ext": False, "cap": c, "elem": dict(T)}})
    rt = {"k": "msg", "name": "Top", "ext": False, "fields": fields}
    return {"files": {"main": [{"d": "proto", "name": "main"},
                               {"d": "message", "name": "Top", "ext": False, "body": body}]},
            "order": ["main"], "main": "main", "top": "Top", "rtype": rt}


def main(tier, replay=None):
    rep = Report("C06", tier)
    seed = common.seed()
    reduced = tier == "quick"
    rep.assumptions += [
        "sections (a)-(d): no big-endian host exists in the sandbox: the runtime built with -DBP_BIG_ENDIAN runs on this "
        "little-endian host on storage laid out big-endian by the harness",
        "not emulable in (a)-(d): extensible prefixes (a native uint16_t local) and decode of signed widths other "
        "than 8/16/32/64 (native sign fix-up); section (e) covers both: there the C sources are compiled by clang for "
        "a big-endian LP64 target into LLVM IR, every 16/32/64-bit integer load and store is byte-swapped and the "
        "module is retargeted to this host, so every integer object has big-endian memory semantics "
        "(trusted: that rewriting, bpverif/beir.py, and the equality of the two LP64 struct layouts)",
        "the big-endian branch of -O output is value based and runs on native storage",
    ]
    # ---- design level ----
    r = designlevel.run_cfg("MC_CCopy", open(common.SPEC + "/MC_CCopy.cfg").read(), coverage=True)
    tlc.machinery_check(r, "MC_CCopy")
    rep.add_tlc(r, "design:CCopy LE and BE variants refine the bit copy, n<=80 x di x si")
    if not r.ok:
        raise common.MachineryError("MC_CCopy violated: %s" % r.violated)
    r = designlevel.run_cfg("MC_Stage", open(common.SPEC + "/MC_Stage.cfg").read())
    tlc.machinery_check(r, "MC_Stage")
    rep.add_tlc(r, "design:big-endian staging, widths 1..64 x offsets 0..7")
    if not r.ok:
        raise common.MachineryError("MC_Stage violated: %s" % r.violated)
    worker = cdrive.Worker()
    try:
        with common.Scratch("c06") as scratch:
            # ---- (a) every BpCopyBufferBits case through the real big-endian build ----
            for cflags in ((("-O0",),) if reduced else (("-O0",), ("-O2",))):
                traces = ccopycases.copy_traces(scratch, worker, True, 40 if reduced else 80, seed, cflags=cflags)
                verdicts, r = tlc.validate_traces("WireTrace", "WireTrace.cfg", traces)
                rep.add_tlc(r, "trace-validation:BpCopyBufferBits big-endian build " + "".join(cflags))
                rep.cov["traces_validated_against_impl"] += len(traces)
                for tr, (ok, why) in zip(traces, verdicts):
                    rep.count("evaluations", len(tr["events"]))
                    if not ok:
                        idx = int(why.split(":")[0]) - 1
                        rep.decide({"event": tr["events"][idx], "cflags": cflags}, "BpCopyBufferBits BE: " + why, [])
            # ---- (b) U_full base types and (c) capacity sweep through the big-endian runtime build ----
            types = gen.ufull_leaf_types()
            if reduced:
                types = [T for T in types if T["k"] in ("bool", "byte") or T["n"] in
                         (1, 3, 7, 8, 9, 13, 15, 16, 17, 24, 31, 32, 33, 48, 63, 64)]
            for cflags in ((("-O1",),) if reduced else (("-O0",), ("-O2",))):
                builder = cdrive.CBuilder(scratch, cflags=cflags, defines=("BP_BIG_ENDIAN",))
                cases = []
                for T in types:
                    key = "%s%s" % (T["k"], T.get("n", ""))
                    prog = ufull.ufull_prog(T)
                    rng = random.Random("c06/%d/%s" % (seed, key))
                    vals = [ufull.fill(prog["rtype"], x, p) for x, p in ufull.ufull_values(T, True)]
                    vals += ufull.mixed_values(T, rng, prog, 2)
                    cases.append(cwire.CCase("c06-ufull-%s-%s" % ("".join(cflags), key), prog, vals, note={"T": T}))
                sweep_types = [{"k": "byte"}] + [{"k": k, "n": n} for k in ("uint", "int") for n in (8, 16, 32, 64)] + \
                              [{"k": "uint", "n": 7}, {"k": "int", "n": 24}, {"k": "bool"}]
                for T in sweep_types:
                    key = "%s%s" % (T["k"], T.get("n", ""))
                    prog = cap_sweep_prog(T, list(range(1, 18)))
                    rng = random.Random("c06s/%d/%s" % (seed, key))
                    vals = [gen.gen_value(rng, prog["rtype"], "rand") for _ in range(3)]
                    cases.append(cwire.CCase("c06-capsweep-%s-%s" % ("".join(cflags), key), prog, vals, note={"T": T}))
                built = cwire.prepare(cases, scratch, builder)
                for c, lib in built:
                    if lib is None:
                        continue
                    T = c.note["T"]
                    want = ["enc"]
                    if not (T["k"] == "int" and not std_width(T)):
                        want.append("dec")
                    cwire.drive_case(c, lib, worker, want=tuple(want), be=True)
                    rep.feature("be-runtime:" + "".join(cflags))
                pywire.validate_and_decide(rep, cases, count_events=("CEncode", "CDecode"))
            # ---- (d) optimization-mode output: every --endian setting, both preprocessor branches ----
            n = 40 if reduced else 500
            variants = [("both", False), ("both", True), ("big", False), ("big", True), ("little", False)]
            for endian, define_be in variants:
                builder = cdrive.CBuilder(scratch, cflags=("-O2",), defines=(("BP_BIG_ENDIAN",) if define_be else ()))
                cases = []
                for k in range(n):
                    prog, rng = gen.rand_case(seed, 30000 + k, p_ext=0.0)
                    t = prog["rtype"]
                    vals = [gen.gen_value(rng, t, "ones")] + [gen.gen_value(rng, t, "rand") for _ in range(3)]
                    cases.append(cwire.CCase("c06-opt-%s-%s-%d" % (endian, "be" if define_be else "le", k), prog, vals))
                built = cwire.prepare(cases, scratch, builder, optimize=True, endian=endian)
                for c, lib in built:
                    if lib is not None:
                        cwire.drive_case(c, lib, worker, want=("enc", "dec"))
                    rep.feature("opt:--endian %s%s" % (endian, " -DBP_BIG_ENDIAN" if define_be else ""))
                pywire.validate_and_decide(rep, cases, count_events=("CEncode", "CDecode"))
            # ---- (e) a big-endian host without one: clang IR for a big-endian LP64 target, every integer load /
            # store byte-swapped, retargeted to this host (bpverif/beir.py).  All integer objects -- the runtime's
            # own temporaries (16-bit prefix, sign fix-up) included -- have big-endian memory semantics, so
            # extensible types and the decode of every signed width are decided here as well ----
            import shutil as _shutil
            if _shutil.which("clang") is None:
                rep.cov["true_big_endian_build"] = {"available": False, "why": "clang not on PATH"}
            else:
                bb = cdrive.BEBuilder(scratch)
                cases = []
                for k in range(40 if reduced else 600):
                    prog, rng = gen.rand_case(seed, 35000 + k, p_ext=0.45, max_bits=[80, 300, 1200][k % 3])
                    t = prog["rtype"]
                    cases.append(cwire.CCase("c06-trueBE-%d" % k, prog,
                                             [gen.gen_value(rng, t, "ones")] + [gen.gen_value(rng, t, "rand") for _ in range(2)]))
                for T in types:
                    key = "%s%s" % (T["k"], T.get("n", ""))
                    prog = ufull.ufull_prog(T)
                    vals = [ufull.fill(prog["rtype"], x, p) for x, p in ufull.ufull_values(T, True)]
                    vals += ufull.mixed_values(T, random.Random("c06e/%d/%s" % (seed, key)), prog, 1)
                    cases.append(cwire.CCase("c06-trueBE-ufull-%s" % key, prog, vals))
                for k in range(10 if reduced else 120):
                    # optimization-mode output too (its big-endian branch is selected by the predefined macros)
                    prog, rng = gen.rand_case(seed, 36000 + k, p_ext=0.0)
                    t = prog["rtype"]
                    cases.append(cwire.CCase("c06-trueBE-opt-%d" % k, prog,
                                             [gen.gen_value(rng, t, "ones"), gen.gen_value(rng, t, "rand")], note={"opt": True}))
                std = [c for c in cases if not c.note.get("opt")]
                opt = [c for c in cases if c.note.get("opt")]
                nbuilt = 0
                for group, optimize in ((std, False), (opt, True)):
                    for c, lib in cwire.prepare(group, scratch, bb, optimize=optimize):
                        if lib is not None:
                            nbuilt += 1
                            cwire.drive_case(c, lib, worker, want=("enc", "dec"), be=True)
                        rep.feature("true-big-endian:%s" % ("-O" if optimize else "standard"))
                rep.cov["true_big_endian_build"] = {"available": True, "schemas_built": nbuilt, "schemas": len(cases),
                                                    "how": "clang --target=powerpc64 -O0 -emit-llvm, bswap on every "
                                                           "i16/i32/i64 load/store, retargeted to x86-64"}
                pywire.validate_and_decide(rep, cases, count_events=("CEncode", "CDecode"))
    finally:
        worker.close()
    rep.cov["rule"] = ("(e) random schemas incl. extensible ones, U_full and -O output on a byte-swapped big-endian build; "
                       "(a) every BpCopyBufferBits(n<=40/80, di, si) call of the -DBP_BIG_ENDIAN build; (b) U_full leaf "
                       "types x offsets x positions and (c) array capacities 1..17 of 8/16/32/64-bit and other "
                       "elements through the big-endian runtime on big-endian storage; (d) random traditional "
                       "schemas through -O output for every --endian setting and preprocessor branch; every "
                       "Encode/Decode decided against Wire by TLC; distinct_nontrivial counts distinct schema shapes")
    return rep.finish()
