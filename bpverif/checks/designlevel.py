"""Design-level TLC runs (spec against spec) shared by several checks."""
import os
import tempfile

from .. import common, tlc


def codec_cfg(depth, caps, leafset, evo, modes, rawpad=3, impl_skip=False, skip="observed",
              invariants=("InBounds", "EncRefines", "DecRefines", "WireRoundTrip", "ChunkShape"),
              properties=("OnlyOwnSlot",), liveness=False):
    lines = ["SPECIFICATION Spec", "CONSTANTS",
             ("  Depth <- Minus1" if depth < 0 else "  Depth = %d" % depth),
             "  Caps = {%s}" % ", ".join(str(c) for c in caps),
             '  LeafSet = "%s"' % leafset,
             "  EvoSteps = %d" % evo,
             "  Modes = {%s}" % ", ".join('"%s"' % m for m in modes),
             "  RawPad = %d" % rawpad,
             '  SkipVariant = "%s"' % ("impl-old" if impl_skip else skip)]
    for i in invariants:
        lines.append("INVARIANT " + i)
    for p in properties:
        lines.append("PROPERTY " + p)
    if liveness:
        lines.append("PROPERTY Termination")
    lines.append("CHECK_DEADLOCK FALSE")
    return "\n".join(lines) + "\n"


def run_cfg(module, text, timeout=3000, workers=16, coverage=False):
    fd, path = tempfile.mkstemp(prefix="bpverif-cfg-", suffix=".cfg",
                                dir=os.environ.get("TMPDIR", "/tmp"))
    with os.fdopen(fd, "w") as f:
        f.write(text)
    try:
        r = tlc.run_tlc(module, path, timeout=timeout, workers=workers, coverage=coverage)
    finally:
        os.remove(path)
    return r


def codec_design(rep, label, expect_ok=True, **kw):
    """Runs MC_Codec with the given bounds; a violated invariant is a machinery failure at
    design level (the spec's own machine disagrees with the spec's own Wire functions)."""
    text = codec_cfg(**kw)
    r = run_cfg("MC_Codec", text)
    tlc.machinery_check(r, "MC_Codec " + label)
    consts = {k: (sorted(v) if isinstance(v, (set, tuple, list)) else v) for k, v in kw.items()}
    rep.add_tlc(r, "design:" + label, constants=consts)
    if expect_ok and not r.ok:
        raise common.MachineryError("design-level model %s violates %s on its own" % (label, r.violated))
    return r
