"""Design-level TLC runs (spec against spec) shared by several checks."""
import os
import tempfile

from .. import common, tlc


def codec_cfg(depth, caps, leafset, evo, modes, rawpad=3, impl_skip=False, skip="observed",
              invariants=("InBounds", "EncRefines", "DecRefines", "WireRoundTrip", "ChunkShape"),
              properties=("OnlyOwnSlot",), liveness=False):
    lines = ["SPECIFICATION Spec", "CONSTANTS",
             ("  Depth <- Minus1" if depth < 0 else "  Depth = %d" % depth),
             "  Caps = {%s}" % ", ".join(str(c) for c in caps),
             '  LeafSet = "%s"' % leafset,
             "  EvoSteps = %d" % evo,
             "  Modes = {%s}" % ", ".join('"%s"' % m for m in modes),
             "  RawPad = %d" % rawpad,
             '  SkipVariant = "%s"' % ("impl-old" if impl_skip else skip)]
    for i in invariants:
        lines.append("INVARIANT " + i)
    for p in properties:
        lines.append("PROPERTY " + p)
    if liveness:
        lines.append("PROPERTY Termination")
    lines.append("CHECK_DEADLOCK FALSE")
    return "\n".join(lines) + "\n"


def run_cfg(module, text, timeout=3000, workers=16, coverage=False):
    fd, path = tempfile.mkstemp(prefix="bpverif-cfg-", suffix=".cfg",
                                dir=os.environ.get("TMPDIR", "/tmp"))
    with os.fdopen(fd, "w") as f:
        f.write(text)
    try:
        r = tlc.run_tlc(module, path, timeout=timeout, workers=workers, coverage=coverage)
    finally:
        os.remove(path)
    return r


def codec_design(rep, label, expect_ok=True, **kw):
    """Runs MC_Codec with the given bounds; a violated invariant is a machinery failure at
    design level (the spec's own machine disagrees with the spec's own Wire functions)."""
    text = codec_cfg(**kw)
    r = run_cfg("MC_Codec", text)
    tlc.machinery_check(r, "MC_Codec " + label)
    consts = {k: (sorted(v) if isinstance(v, (set, tuple, list)) else v) for k, v in kw.items()}
    rep.add_tlc(r, "design:" + label, constants=consts)
    if expect_ok and not r.ok:
        raise common.MachineryError("design-level model %s violates %s on its own" % (label, r.violated))
    return r


def apalache(module_path, init, inv, length, timeout=900):
    """Runs apalache-mc check; returns 'NoError', 'Error' (a violation was found) or 'unavailable:<why>'."""
    import shutil
    import subprocess
    if shutil.which("apalache-mc") is None:
        return "unavailable:apalache-mc not on PATH"
    out = tempfile.mkdtemp(prefix="bpverif-apa-", dir=os.environ.get("TMPDIR", "/tmp"))
    try:
        p = subprocess.run(["apalache-mc", "check", "--init=" + init, "--inv=" + inv, "--length=%d" % length,
                            "--out-dir=" + out, os.path.basename(module_path)],
                           cwd=os.path.dirname(module_path), capture_output=True, text=True, timeout=timeout)
        txt = p.stdout + p.stderr
        if "The outcome is: NoError" in txt:
            return "NoError"
        if "The outcome is: Error" in txt:
            return "Error"
        last = [l for l in txt.splitlines() if l.strip()][-1:] or [""]
        return "unavailable:" + last[0][:160]
    except subprocess.TimeoutExpired:
        return "unavailable:timeout"
    except OSError as e:
        return "unavailable:%s" % e
    finally:
        shutil.rmtree(out, ignore_errors=True)


def copy_loop_unbounded(rep):
    """The chunk arithmetic of every runtime's bit copier, for EVERY width and stream position: CopyLoop.tla's
    inductive invariant discharged by Apalache (no bound), a negative control, and the TLC bridge that ties its
    formula to Wire!NCopy.  Apalache being unavailable is recorded, not a verdict (the bounded TLC models stand)."""
    r = run_cfg("MC_CopyLoop", open(os.path.join(common.SPEC, "MC_CopyLoop.cfg")).read(), timeout=600, workers=2)
    tlc.machinery_check(r, "MC_CopyLoop")
    if not r.ok:
        raise common.MachineryError("MC_CopyLoop: CopyLoop's chunk formula is not Wire!NCopy")
    rep.add_tlc(r, "design:CopyLoop!ChunkOf = Wire!NCopy on 0..40 x 1..70 (bridge to the Apalache proof)")
    mod = os.path.join(common.SPEC, "CopyLoop.tla")
    res = {"initiation (Init => IndInv)": apalache(mod, "Init", "IndInv", 0),
           "consecution and ChunkShape (IndInv /\\ Next => IndInv' /\\ ChunkShape)": apalache(mod, "IndInit", "Safety", 1),
           "progress (action invariant j' > j, j' <= n)": apalache(mod, "IndInit", "StepProgress", 1)}
    # negative control: one more bit of room in the stream byte must be refuted
    bad_dir = tempfile.mkdtemp(prefix="bpverif-apabad-", dir=os.environ.get("TMPDIR", "/tmp"))
    try:
        text = open(mod).read().replace("8 - (ii % 8), 8 - (jj % 8))", "9 - (ii % 8), 8 - (jj % 8))")
        text = text.replace("MODULE CopyLoop", "MODULE CopyLoopBad")
        with open(os.path.join(bad_dir, "CopyLoopBad.tla"), "w") as f:
            f.write(text)
        neg = apalache(os.path.join(bad_dir, "CopyLoopBad.tla"), "IndInit", "Safety", 1)
    finally:
        import shutil
        shutil.rmtree(bad_dir, ignore_errors=True)
    info = {"module": "CopyLoop.tla", "tool": "apalache-mc 0.58 (SMT, unbounded integers)", "obligations": res,
            "negative_control (9 - i mod 8)": neg}
    if any(v == "Error" for v in res.values()):
        raise common.MachineryError("CopyLoop: Apalache refutes an obligation: %s" % res)
    if all(v == "NoError" for v in res.values()) and neg == "NoError":
        raise common.MachineryError("CopyLoop: the negative control was not refuted")
    info["holds_for_every_width_and_offset"] = all(v == "NoError" for v in res.values()) and neg == "Error"
    rep.cov["unbounded_chunk_arithmetic"] = info
    return info
