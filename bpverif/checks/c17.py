"""C17 -- -O and -F restrict what is generated without altering it."""
import copy
import hashlib
import itertools
import os
import random
import re

from .. import common
from .. import cdrive, drive, gen, prog as P, render, tlc
from ..report import Report
from . import comptrace, designlevel

C_FUNC = re.compile(r"^int (Encode|Decode)(\w+)\(struct \w+ \*m, unsigned char \*s\) \{\n.*?\n\}(?:\n|\Z)", re.M | re.S)
GO_FUNC = re.compile(r"^func \(m \*(\w+)\) (Encode|Decode)\((?:s \[\]byte)?\)(?: \[\]byte)? \{\n.*?\n\}(?:\n|\Z)", re.M | re.S)
PY_CLASS = re.compile(r"^class (\w+)\(bp\.MessageBase\):", re.M)


def message_paths(pr):
    out = []

    def walk(ds, path):
        for d in ds:
            if d["d"] == "message":
                out.append(path + [d["name"]])
                walk(d["body"], path + [d["name"]])
    walk(pr["files"][pr["main"]], [])
    return out


def analyse(lang, outdir, pr):
    """{schema message name: digest of its encoder+decoder text} and the list of declaration lines."""
    flat = {"".join(p): p[-1] for p in message_paths(pr)}
    funcs, decls = {}, []
    base = pr["main"] + "_bp"
    if lang == "c":
        c = open(os.path.join(outdir, base + ".c")).read()
        h = open(os.path.join(outdir, base + ".h")).read()
        found = {}
        for m in C_FUNC.finditer(c):
            found.setdefault(m.group(2), {})[m.group(1)] = m.group(0).rstrip("\n")
        for cname, parts in found.items():
            if "Encode" in parts and "Decode" in parts and cname in flat:
                funcs[cname] = hashlib.sha256((parts["Encode"] + parts["Decode"]).encode()).hexdigest()
        decls = [l for l in h.splitlines() if re.match(r"^(#define \w+ |struct \w+ \{|typedef )", l)]
    elif lang == "go":
        g = open(os.path.join(outdir, base + ".go")).read()
        found = {}
        for m in GO_FUNC.finditer(g):
            found.setdefault(m.group(1), {})[m.group(2)] = m.group(0).rstrip("\n")
        for gname, parts in found.items():
            if "Encode" in parts and "Decode" in parts and gname in flat:
                funcs[gname] = hashlib.sha256((parts["Encode"] + parts["Decode"]).encode()).hexdigest()
        decls = [l for l in g.splitlines() if re.match(r"^(type |const )", l)]
    else:
        y = open(os.path.join(outdir, base + ".py")).read()
        pyflat = {"_".join(p): p[-1] for p in message_paths(pr)}
        for m in PY_CLASS.finditer(y):
            if m.group(1) in pyflat:
                funcs[m.group(1)] = "py"
        decls = [l for l in y.splitlines() if re.match(r"^(class |\w+: |\w+ = )", l)]
    return funcs, decls


def with_marker(pr, where, rng):
    """Copy of a traditional program with one extensible marker somewhere."""
    p = copy.deepcopy(pr)
    p.pop("rtype", None)
    main = p["files"][p["main"]]
    msgs = [d for d in P_all(main) if d["d"] == "message"]
    if where == "main-message":
        rng.choice(msgs)["ext"] = True
    elif where == "nested-message":
        nested = [d for m in msgs for d in m["body"] if d["d"] == "message"]
        if not nested:
            return None
        rng.choice(nested)["ext"] = True
    elif where == "array":
        arrs = [d["t"] for d in P_all(main) if d["d"] in ("field", "alias") and d["t"]["k"] == "array"]
        if not arrs:
            return None
        rng.choice(arrs)["ext"] = True
    elif where == "imported":
        libs = [f for f in p["files"] if f != p["main"]]
        if not libs:
            return None
        cands = [d for d in P_all(p["files"][libs[0]]) if d["d"] == "message"] + \
                [d["t"] for d in P_all(p["files"][libs[0]]) if d["d"] in ("field", "alias") and d["t"]["k"] == "array"]
        if not cands:
            return None
        rng.choice(cands)["ext"] = True
    elif where == "imported-deep":
        # the marker stands in a file the entry file does NOT import itself: app -> main -> lib (seed C17-g)
        q = with_marker(pr, "imported", rng)
        if q is None:
            return None
        return wrap_chain(q)
    return p


def wrap_chain(pr, app="app", top="App"):
    """A new entry file that imports only the old main file and holds its top message: every other file of the
    program is reached through two imports or more."""
    p = dict(pr)
    files = dict(pr["files"])
    old_main = pr["main"]
    member = [d["name"] for d in files[old_main] if d["d"] == "proto"][-1]
    files[app] = [{"d": "proto", "name": app}, {"d": "import", "file": old_main, "as": None},
                  {"d": "message", "name": top, "ext": False,
                   "body": [{"d": "field", "name": "t", "num": 1, "t": gen.tref([member, pr["top"]])}]}]
    p["files"] = files
    p["order"] = list(pr["order"]) + [app]
    p["main"] = app
    p["top"] = top
    p["nbits"] = None
    p.pop("rtype", None)
    p.pop("_texts", None)
    return p


def P_all(decls):
    for d in decls:
        yield d
        if d["d"] in ("message", "enum"):
            yield from P_all(d["body"])


def main(tier, replay=None):
    rep = Report("C17", tier)
    seed = common.seed()
    rep.assumptions += [
        "functions are attributed to schema messages through the flattened C/Go type names (enclosing names "
        "concatenated) and Python class names (joined by '_'); -F names are own names of messages",
        "'textually identical': sha256 of the encoder+decoder text against the run without -F (same --endian)",
    ]
    r = designlevel.run_cfg("MC_Cli", open(common.SPEC + "/MC_Cli.cfg").read(), timeout=600)
    tlc.machinery_check(r, "MC_Cli")
    rep.add_tlc(r, "design:Cli outcome over the whole configuration space")
    if not r.ok:
        raise common.MachineryError("MC_Cli violated: %s" % r.violated)
    nschemas = 4 if tier == "quick" else 25
    traces, metas, jobs = [], [], []
    with common.Scratch("c17") as scratch:
        schemas = []
        k = 0
        while len(schemas) < nschemas and k < 400:
            rng = random.Random("c17/%d/%d" % (seed, k))
            pr, _ = gen.rand_case(seed, 180000 + k, p_ext=0.0, max_bits=rng.choice([100, 400]), max_depth=3)
            k += 1
            if len(message_paths(pr)) < 3 or len(pr["files"]) < 2 and len(schemas) % 2 == 0:
                continue
            schemas.append(("none", pr))
            for where in ("main-message", "nested-message", "array", "imported", "imported-deep"):
                q = with_marker(pr, where, rng)
                if q is not None:
                    schemas.append((where, q))
        schemas.append(("same-bare-names", gen.same_names_program()))
        for si, (where, pr) in enumerate(schemas):
            d = scratch.sub()
            main_path, paths = render.write_program(pr, d)
            names = [p[-1] for p in message_paths(pr)]
            rng = random.Random("c17f/%d/%d" % (seed, si))
            fsets = [None, [], [names[0]], names[:2], [names[-1]], ["Nonexistent"], [names[0], "Nonexistent"]]
            if tier != "quick":
                fsets += [rng.sample(names, rng.randint(1, len(names))) for _ in range(3)]
            if where == "same-bare-names":
                tops = ["Lamp", "Motor", "Top"]
                fsets = [None] + [[n_ for i_, n_ in enumerate(tops) if m_ >> i_ & 1] for m_ in range(1, 8)] + [["Cfg"]]
            for lang, O, F, endian, check in itertools.product(
                    ("c", "go", "py"), (False, True), fsets, ("both", "little", "big"), (False,)):
                if endian != "both" and not (lang == "c" and O):
                    continue
                if where not in ("none", "same-bare-names") and F not in (None, [names[0]]):
                    continue
                out = os.path.join(d, "o_%d" % len(jobs))
                os.makedirs(out)
                args = [lang, main_path, out, "-q"]
                if O:
                    args.append("-O")
                ftoks = None
                if F is not None:
                    # the spelling of the list: tight, or with blanks around the commas / the whole argument
                    style = ("tight", "after", "around", "before", "edges")[(len(jobs) + si) % 5] if F else "tight"
                    ftoks = []
                    for i_, nm in enumerate(F):
                        if i_:
                            ftoks += {"tight": [","], "after": [",", " "], "around": [" ", ",", " "],
                                      "before": [" ", ","], "edges": [","]}[style]
                        ftoks.append(nm)
                    if style in ("around", "edges") and F:
                        ftoks = [" "] + ftoks + [" "]
                    args += ["-F", "".join(ftoks)]
                if endian != "both":
                    args += ["--endian", endian]
                jobs.append((args, d))
                metas.append({"si": si, "where": where, "pr": pr, "lang": lang, "O": O, "F": F, "endian": endian,
                              "out": out, "args": args[:1] + args[3:], "ftoks": ftoks})
        res = comptrace.run_cli_many(jobs)
        # reference (unfiltered) analysis per (schema, lang, O, endian)
        ref = {}
        for m, (rc, so, se) in zip(metas, res):
            m["rc"], m["stderr"] = rc, se
            if rc == 0 and os.listdir(m["out"]):
                m["funcs"], m["decls"] = analyse(m["lang"], m["out"], m["pr"])
                if m["F"] is None:
                    ref[(m["si"], m["lang"], m["O"], m["endian"])] = m
        for m in metas:
            pr = m["pr"]
            cfg = {"lang": m["lang"], "O": m["O"], "F": m["F"] or [], "useF": m["F"] is not None, "check": False}
            if m["ftoks"] is not None:
                cfg["Ftoks"] = m["ftoks"]
            rep.feature("F-spelling:" + ("none" if m["ftoks"] is None else "blanks" if " " in m["ftoks"] else "tight"))
            e = {"ev": "CliRun", "cfg": cfg, "exit": m["rc"], "nfiles": len(os.listdir(m["out"])),
                 "traceback": "Traceback (most recent call last)" in m["stderr"],
                 "ndiag": m["stderr"].count("error:") + (1 if m["stderr"].strip() else 0),
                 "nwarn": 0, "funcs_same_text": True, "decls_same": True}
            # own names of the messages that got functions, one entry per MESSAGE (same-named messages of different
            # scopes count separately)
            sep = "_" if m["lang"] == "py" else ""
            simple = {sep.join(p_): p_[-1] for p_ in message_paths(pr)}
            e["funcs"] = sorted(simple.get(k_, k_) for k_ in m.get("funcs", {}))
            rf = ref.get((m["si"], m["lang"], m["O"], m["endian"]))
            if "funcs" in m and rf is not None:
                e["funcs_same_text"] = all(rf["funcs"].get(n) == dg for n, dg in m["funcs"].items())
                e["decls_same"] = (m["decls"] == rf["decls"])
            tr = P.spec_program(pr, trad=m["O"])
            tr["id"] = "c17-%d-%s" % (m["si"], " ".join(m["args"]))
            tr["obs"] = [e]
            traces.append(tr)
            rep.feature("marker:" + m["where"])
            rep.feature("cfg:%s%s%s" % (m["lang"], " -O" if m["O"] else "", " -F" if m["F"] is not None else ""))
        verdicts, r = comptrace.validate(traces)
    rep.add_tlc(r, "trace-validation:Compiler (traditional mode) + Cli outcome per run")
    rep.cov["traces_validated_against_impl"] = len(traces)
    for tr, m, v in zip(traces, metas, verdicts):
        rep.count("evaluations")
        rep.distinct((m["where"], m["lang"], m["O"], None if m["F"] is None else len(m["F"]), m["endian"]))
        if v["ok"]:
            if m["F"]:
                rep.sample({"args": m["args"], "marker": m["where"], "exit": m["rc"], "functions": sorted(m.get("funcs", {})),
                            "stderr": m["stderr"][:200]}, limit=4)
            continue
        clause = v["why"].split(":", 1)[-1]
        if clause.startswith("skip"):
            continue
        if clause.startswith("machinery"):
            raise common.MachineryError("trace %s: %s" % (tr["id"], v["why"]))
        case = {"args": m["args"], "marker": m["where"], "schema": {n: render.render_file(ds) for n, ds in m["pr"]["files"].items()},
                "event": tr["obs"][0], "stderr": m["stderr"][:500], "seed": seed}
        rep.decide(case, "%s [%s]: %s" % (" ".join(m["args"]), m["where"], v["why"]), [])
    rep.cov["rule"] = ("schemas (none / one extensible marker on a main-file message, a nested message, an array, in "
                       "an imported file, or in a file reached only through a chain of two imports) x {c, go, py} x {-O} x {-F absent, empty, one name, two names, nested name, "
                       "unknown name} x --endian; each run's exit status, output files, set of messages with "
                       "encoder/decoder, function text and declaration list (vs the run without -F) is decided by TLC; "
                       "distinct_nontrivial counts distinct (marker place, language, -O, |F|, endian) combinations")
    return rep.finish()
