"""C16 -- JSON output is valid JSON that states the message's values."""
import random

from .. import cdrive, common, gen, tlc
from ..report import Report
from . import cwire, designlevel, pywire


def main(tier, replay=None):
    rep = Report("C16", tier)
    seed = common.seed()
    rep.assumptions += [
        "JSON text is parsed by the standard library with key order and duplicate keys preserved; numbers are "
        "projected to sign + magnitude bits without knowledge of the schema",
        "C: the caller supplies a large enough text buffer (the API has no length parameter)",
    ]
    # design level: JsonOf is total and injective on leaves over U_small values (MC_Json)
    r = designlevel.run_cfg("MC_Json", "SPECIFICATION Spec\nINVARIANT JsonStatesValue\nCHECK_DEADLOCK FALSE\n", timeout=600)
    tlc.machinery_check(r, "MC_Json")
    rep.add_tlc(r, "design:JsonOf over U_small")
    if not r.ok:
        raise common.MachineryError("MC_Json violated: %s" % r.violated)
    n, nv = (120, 5) if tier == "quick" else (2000, 10)
    worker = cdrive.Worker()
    try:
        with common.Scratch("c16") as scratch:
            pycases = []
            for k in range(n):
                prog, rng = gen.rand_case(seed, k, max_bits=rng_bits(k))
                if k % 4 == 1:
                    gen.long_field_names(prog, random.Random("c16long/%d/%d" % (seed, k)))
                t = prog["rtype"]
                vals = [gen.gen_value(rng, t, "zero"), gen.gen_value(rng, t, "ones")]
                vals += [gen.gen_value(rng, t, "rand") for _ in range(nv - 2)]
                c = pywire.PyCase("c16-py-%d-%d" % (seed, k), prog, vals)
                pywire.run_case(c, scratch, want=("json",), enum_as_member=(k % 2 == 0))
                pycases.append(c)
                for f in gen.features(t):
                    rep.feature(f)
            pywire.validate_and_decide(rep, pycases, count_events=("Json",))
            builder = cdrive.CBuilder(scratch, cflags=("-O1",))
            ccases = []
            for k in range(n):
                prog, rng = gen.rand_case(seed, k, max_bits=rng_bits(k))
                if k % 4 == 1:
                    gen.long_field_names(prog, random.Random("c16long/%d/%d" % (seed, k)))
                t = prog["rtype"]
                vals = [gen.gen_value(rng, t, "zero"), gen.gen_value(rng, t, "ones")]
                vals += [gen.gen_value(rng, t, "rand") for _ in range(nv - 2)]
                ccases.append(cwire.CCase("c16-c-%d-%d" % (seed, k), prog, vals))
            built = cwire.prepare(ccases, scratch, builder)
            for c, lib in built:
                if lib is not None:
                    cwire.drive_case(c, lib, worker, want=("json",))
                    # the encode events are not this property's business
                    keep = [(e, s) for e, s in zip(c.events, c.event_src) if e["ev"] != "CEncode"]
                    c.events = [e for e, _ in keep]
                    c.event_src = [s for _, s in keep]
            pywire.validate_and_decide(rep, ccases, count_events=("Json",))
    finally:
        worker.close()
    rep.cov["rule"] = ("U_rand schemas (same seeds for Python and C) x values; one evaluation = one JSON text "
                       "(Python to_json, to_dict, C Json<Msg>) parsed and compared with Wire!JsonOf by TLC; "
                       "distinct_nontrivial counts distinct schema shapes")
    return rep.finish()


def rng_bits(k):
    return [60, 200, 600, 1500][k % 4]
