"""C10 -- every accepted schema yields code the target toolchains accept."""
import copy
import os
import random
import re
import subprocess
from concurrent.futures import ThreadPoolExecutor

from .. import common, drive, gen, prog as P, render, tlc
from ..report import Report
from .c15 import struct_layouts
from .c20 import all_decls, rename_refs

GO_KEYWORDS = set("break default func interface select case defer go map struct chan else goto package switch const "
                  "fallthrough if range type continue for import return var".split())


def strip_go(text):
    """Removes comments, string/rune/raw-string literals (keeps line structure)."""
    out, i, n = [], 0, len(text)
    while i < n:
        c = text[i]
        if text.startswith("//", i):
            j = text.find("\n", i)
            i = n if j < 0 else j
        elif text.startswith("/*", i):
            j = text.find("*/", i + 2)
            seg = text[i:(n if j < 0 else j + 2)]
            out.append("\n" * seg.count("\n"))
            i = n if j < 0 else j + 2
        elif c == '"':
            j = i + 1
            while j < n and text[j] != '"' and text[j] != "\n":
                j += 2 if text[j] == "\\" else 1
            out.append('""')
            i = j + 1
        elif c == "`":
            j = text.find("`", i + 1)
            out.append("``")
            i = n if j < 0 else j + 1
        elif c == "'":
            j = i + 1
            while j < n and text[j] != "'" and text[j] != "\n":
                j += 2 if text[j] == "\\" else 1
            out.append("''")
            i = j + 1
        else:
            out.append(c)
            i += 1
    return "".join(out)


def go_scan(text):
    """Declare/Use/Import events of a Go file, restricted to exported (capitalised) identifiers and
    package qualifiers -- everything the generator emits for schema definitions is exported."""
    raw = text
    t = strip_go(text)
    seq = []
    imports = []
    for m in re.finditer(r'^import\s+(?:(\w+)\s+)?"([^"]*)"', raw, re.M):
        imports.append(m.group(1) or m.group(2).split("/")[-1])
    for m in re.finditer(r"^import\s*\((.*?)^\)", raw, re.M | re.S):
        for line in m.group(1).splitlines():
            mm = re.match(r'\s*(?:(\w+)\s+)?"([^"]*)"', line)
            if mm:
                imports.append(mm.group(1) or mm.group(2).split("/")[-1])
    for a in imports:
        seq.append(["Import", a])
    decls = []
    for m in re.finditer(r"^(?:type|const|var)\s+(\w+)", t, re.M):
        decls.append(m.group(1))
    for m in re.finditer(r"^func\s+(\w+)\s*\(", t, re.M):
        decls.append(m.group(1))
    for m in re.finditer(r"^const\s*\((.*?)^\)", t, re.M | re.S):
        for line in m.group(1).splitlines():
            mm = re.match(r"\s*(\w+)", line)
            if mm:
                decls.append(mm.group(1))
    for d in decls:
        seq.append(["Declare", d])
    # uses: capitalised identifiers not preceded by '.', outside declaration heads
    body = t
    in_struct = False
    for line in body.splitlines():
        s = line
        if re.match(r"^type\s+\w+\s+struct\s*\{", s):
            in_struct = True
            continue
        if in_struct:
            if s.startswith("}"):
                in_struct = False
                continue
            s = re.sub(r"^\s*\w+", "", s, count=1)      # the field name is a declaration in the struct's namespace
        s = re.sub(r"^(type|const|var)\s+\w+", "", s)
        s = re.sub(r"^func\s+(\(\s*\w+\s+\*?\w+\s*\)\s*)?\w+", lambda m: (m.group(1) or ""), s)
        if re.match(r"^\s*\w+(\s+\w+)?\s*=", s) and line.startswith("\t") and not in_struct:
            # a line of a const ( ... ) block: NAME Type = value
            s = re.sub(r"^\s*\w+", "", s, count=1)
        for m in re.finditer(r"(?<![\w.])([A-Za-z_]\w*)(\s*\.)?", s):
            name, dot = m.group(1), m.group(2)
            if dot and name in imports:
                seq.append(["UseQ", name])
            elif name[0].isupper() and name not in GO_KEYWORDS:
                # a composite-literal key (Field:) is in the struct's namespace
                end = m.end(1)
                if s[end:end + 1] == ":" and s[end:end + 2] != ":=":
                    continue
                seq.append(["Use", name])
    seq.append(["End"])
    bal = all(t.count(a) == t.count(b) for a, b in (("(", ")"), ("{", "}"), ("[", "]")))
    return seq, bal


def featureful(seed, k, rng):
    """A U_rand program with the features C10 quantifies over switched on; returns (program, tags)."""
    tags = set()
    cfg = dict(max_bits=rng.choice([60, 300, 1000]), p_empty_msg=0.15 if rng.random() < 0.4 else 0.0,
               lib_as=("shared" if rng.random() < 0.3 else None), p_ext=0.0 if k % 2 == 0 else 0.3,
               # enums without a zero member (the linter warns, the compiler accepts): defaults and factories
               p_enum_nonzero_first=0.5 if k % 4 == 1 else 0.0)
    pr, _ = gen.rand_case(seed, 210000 + k, **cfg, reuse_names=0)
    p = copy.deepcopy(pr)
    p.pop("rtype", None)
    main = p["files"][p["main"]]
    msgs = [d for ds in p["files"].values() for d in all_decls(ds) if d["d"] == "message"]
    if any(not [x for x in m["body"] if x["d"] == "field"] for m in msgs):
        tags.add("empty-message")
    if cfg["lib_as"] and len(p["files"]) > 1:
        tags.add("import-as")
    if cfg["p_enum_nonzero_first"]:
        tags.add("enum-without-zero-member")
    r = rng.random
    if r() < 0.3:
        pi = [i for i, x in enumerate(main) if x["d"] == "proto"][0]
        main.insert(pi + 1, {"d": "option", "name": "c.struct_packing_alignment", "v": gen.lit(rng.choice([1, 2, 4, 8]))})
        tags.add("packing-alignment")
    if r() < 0.3:
        pi = [i for i, x in enumerate(main) if x["d"] == "proto"][0]
        main.insert(pi + 1, {"d": "option", "name": "c.name_prefix", "v": {"e": "str", "src": "pfx_", "val": "pfx_"}})
        tags.add("name-prefix")
    if r() < 0.25:
        # message names ending in digits
        for m in rng.sample(msgs, min(2, len(msgs))):
            if m["name"] != p["top"]:
                old, new = m["name"], m["name"] + str(rng.choice([1, 2, 12, 7]))
                m["name"] = new
                rename_refs(p, old, new)
        tags.add("names-ending-in-digits")
    if r() < 0.12:
        # two messages whose name + array field number concatenate to the same digits (Dg1 / 2 and Dg / 12)
        ti = [i for i, x in enumerate(main) if x["d"] == "message" and x["name"] == p["top"]][0]
        arr = {"k": "array", "elem": {"k": "uint", "n": 8}, "cap": gen.lit(2), "ext": False}
        main.insert(ti, {"d": "message", "name": "Dg1", "ext": False,
                         "body": [{"d": "field", "name": "a", "num": 2, "t": dict(arr)}]})
        main.insert(ti, {"d": "message", "name": "Dg", "ext": False,
                         "body": [{"d": "field", "name": "a", "num": 12, "t": dict(arr)}]})
        tags.add("names-ending-in-digits")
    if r() < 0.25:
        fs = [d for d in all_decls(main) if d["d"] == "field"]
        if fs:
            rng.choice(fs)["name"] = "type"
            tags.add("keyword-like-field-name")
    if r() < 0.3:
        for d in all_decls(main):
            if r() < 0.3:
                d["comment"] = [rng.choice(["a note", "value in mm / 10", "see: http://x.y/z?q=1", "100% 'quoted' text"])]
        tags.add("comments")
    if r() < 0.08:
        d = rng.choice([x for x in all_decls(main) if x["d"] in ("message", "field", "const", "enum")])
        d["comment"] = ["path C:\\dir\\"]
        tags.add("comment-ends-with-backslash")
    if r() < 0.08:
        d = rng.choice([x for x in all_decls(main) if x["d"] in ("message",)])
        d["comment"] = ['says """hello"""']
        tags.add("comment-with-triple-quote")
    if r() < 0.1:
        main.insert(len(main) - 1, {"d": "enum", "name": "EmptyEnumZz", "n": 3, "body": []})
        top = [d for d in main if d["d"] == "message" and d["name"] == p["top"]][0]
        nums = [x["num"] for x in top["body"] if x["d"] == "field"]
        free = [n for n in range(1, 256) if n not in nums]
        top["body"].append({"d": "field", "name": "empty_enum_zz", "num": free[0], "t": gen.tref(["EmptyEnumZz"])})
        tags.add("empty-enum-as-field")
    libs = [f for f in p["files"] if f != p["main"]]
    if libs:
        lib = libs[0]
        ref = cfg["lib_as"] or lib
        uses_types = any(x.get("t") and _mentions(x["t"], ref) for x in all_decls(main) if x["d"] in ("field", "alias"))
        if not uses_types:
            tags.add("import-used-only-for-constants-or-unused")
        if r() < 0.12:
            # a type nested in a message of the imported file
            outer = [d for d in p["files"][lib] if d["d"] == "message" and any(x["d"] in ("message", "enum") for x in d["body"])]
            if outer:
                o = rng.choice(outer)
                inner = rng.choice([x for x in o["body"] if x["d"] in ("message", "enum")])
                top = [d for d in main if d["d"] == "message" and d["name"] == p["top"]][0]
                nums = [x["num"] for x in top["body"] if x["d"] == "field"]
                free = [n for n in range(1, 256) if n not in nums]
                top["body"].append({"d": "field", "name": "imported_nested_zz", "num": free[-1],
                                    "t": gen.tref([ref, o["name"], inner["name"]])})
                tags.add("imported-nested-type")
        if r() < 0.15:
            # the imported schema's FILE name differs from its proto name
            newf = lib + "_file"
            files = {}
            for f, ds in p["files"].items():
                files[newf if f == lib else f] = ds
            p["files"] = files
            p["order"] = [newf if f == lib else f for f in p["order"]]
            for d in main:
                if d["d"] == "import" and d["file"] == lib:
                    d["file"] = newf
            tags.add("file-name-differs-from-proto-name")
    if r() < 0.15:
        # the MAIN schema's file name differs from its proto name (no import involved: every output of the file
        # carries the FILE's name, and the .c includes the header under that name)
        newm = p["main"] + "_v2"
        p["files"] = {(newm if f == p["main"] else f): ds for f, ds in p["files"].items()}
        p["order"] = [newm if f == p["main"] else f for f in p["order"]]
        p["main"] = newm
        main = p["files"][newm]
        tags.add("main-file-name-differs-from-proto-name")
    if libs and "file-name-differs-from-proto-name" not in tags and r() < 0.2:
        # the imported file says under which module / package name importers find it
        lf = p["files"][libs[0]]
        pi = [i for i, x in enumerate(lf) if x["d"] == "proto"][0]
        mn, gp = "bppkg.%s_bp" % libs[0], "example.com/x/%s_bp" % libs[0]
        lf.insert(pi + 1, {"d": "option", "name": "py.module_name", "v": {"e": "str", "src": mn, "val": mn}})
        lf.insert(pi + 1, {"d": "option", "name": "go.package_path", "v": {"e": "str", "src": gp, "val": gp}})
        p["_py_packages"] = {libs[0]: "bppkg"}
        tags.add("module-name-options")
    if r() < 0.25:
        # a third file on top that imports the main file and the file the main file imports (a diamond)
        old_main, old_libs = p["main"], [f for f in p["order"] if f != p["main"]]
        p = gen.wrap_diamond(p, rng)
        tags.add("diamond-import")
        if "main-file-name-differs-from-proto-name" in tags:
            # the renamed file is now an IMPORTED one: importers name it by its proto name (D11)
            tags.add("file-name-differs-from-proto-name")
        if len(p["files"]) > 2:
            # app imports the library file without using any of its types (the type tree is not kept here)
            tags.add("import-used-only-for-constants-or-unused")
            tl = [x for x in p["files"][old_libs[0]] if x["d"] in ("alias", "enum", "message")]
            if tl and r() < 0.5:
                # a type of the imported file named THROUGH the file in between: app -> main -> lib
                x = rng.choice(tl)
                appm = [d for d in p["files"][p["main"]] if d["d"] == "message"][0]
                appm["body"].append({"d": "field", "name": "z", "num": 7,
                                     # the imported file is a member of main under its `as` name or its PROTO name
                                     "t": gen.tref([[y for y in p["files"][old_main] if y["d"] == "proto"][-1]["name"],
                                                    cfg["lib_as"] or
                                                    [y for y in p["files"][old_libs[0]] if y["d"] == "proto"][-1]["name"],
                                                    x["name"]])})
                tags.add("transitive-dotted-reference")
    return p, tags


def _mentions(t, ref):
    if t["k"] == "ref":
        return t["path"][0] == ref
    if t["k"] == "array":
        return _mentions(t["elem"], ref)
    return False


def sigs(tags, why):
    out = []
    w = why
    if "empty-enum-as-field" in tags and ("format_default_value_enum" in w or "empty_enum" in w or "EmptyEnumZz" in w):
        out.append("py-render-empty-enum")
    if "imported-nested-type" in tags and ("NameError" in w or "use-of-undeclared" in w):
        out.append("imported-nested-type-unqualified")
    if "transitive-dotted-reference" in tags and ("NameError" in w or "use-of-undeclared" in w):
        out.append("transitive-import-reference-unqualified")
    if "BpXXXProcessArray" in w or "BpXXXJsonFormatArray" in w:
        if "names-ending-in-digits" in tags:
            out.append("c-helper-name-collision-digits")
    if "import-not-used" in w and "import-used-only-for-constants-or-unused" in tags:
        out.append("go-unused-import")
    if "file-name-differs-from-proto-name" in tags and ("No such file" in w or "ModuleNotFoundError" in w
                                                         or "No module named" in w):
        out.append("import-refers-to-proto-name-not-file")
    if "empty-message" in tags and "c-vs-c++-layout" in w:
        out.append("empty-struct-layout-c-vs-cpp")
    if "comment-ends-with-backslash" in tags and ("toolchain-rejects" in w or "c-vs-c++" in w):
        out.append("comment-backslash-splices-line")
    if "comment-with-triple-quote" in tags and ("SyntaxError" in w):
        out.append("comment-triple-quote-breaks-docstring")
    return out


def layouts(d, header, cc):
    """struct_layouts with a chosen compiler (gcc: C view, g++: C++ view)."""
    h = open(os.path.join(d, header)).read()
    from .c15 import C_MEMBER, C_STRUCT
    src = ['#include <stdio.h>', '#include <stddef.h>', '#include "%s"' % header, 'int main(void) {']
    for m in C_STRUCT.finditer(h):
        src.append('printf("S %%zu\\n", sizeof(struct %s));' % m.group(1))
        for f in C_MEMBER.findall(m.group(2)):
            src.append('printf("%s %%zu\\n", offsetof(struct %s, %s));' % (f, m.group(1), f))
    src += ['return 0;', '}']
    ext = ".cpp" if cc == "g++" else ".c"
    cf = os.path.join(d, "bpv_layout_%s%s" % (cc.replace("+", "p"), ext))
    with open(cf, "w") as fh:
        fh.write("\n".join(src) + "\n")
    exe = cf + ".exe"
    p = subprocess.run([cc, "-w", "-I", common.REPO_LIBC, "-I", d, cf, "-o", exe], capture_output=True, text=True)
    if p.returncode != 0:
        first = [l for l in p.stderr.splitlines() if "error" in l][:1]
        return None, (first[0][-200:] if first else "compile failed")
    return subprocess.run([exe], capture_output=True, text=True).stdout.split(), ""


def one_case(args):
    """Everything for one schema (runs in a worker thread; compiler calls are in-process and serialised
    by the caller, toolchain calls are subprocesses)."""
    pr, tags, d, outs = args
    events = []
    main = pr["main"]

    def tool(cmd, what, cwd=None):
        p = subprocess.run(cmd, capture_output=True, text=True, cwd=cwd)
        first = [l for l in p.stderr.splitlines() if "error" in l.lower()][:1]
        events.append({"ev": "Toolchain", "ok": p.returncode == 0,
                       "what": what + ((": " + first[0][-220:]) if p.returncode and first else "")})
        return p.returncode == 0
    for variant, vd in outs.items():
        if vd is None:
            continue
        if variant.startswith("c"):
            ok = True
            for f in pr["order"]:
                ok = tool(["gcc", "-c", "-w", "-I", common.REPO_LIBC, "-I", vd, os.path.join(vd, f + "_bp.c"),
                           "-o", os.path.join(vd, f + "_bp.o")], "%s gcc %s_bp.c" % (variant, f)) and ok
            cpp = os.path.join(vd, "bpv_user.cpp")
            with open(cpp, "w") as fh:
                fh.write('#include "%s_bp.h"\nint bpv_use(void) { return 0; }\n' % main)
            tool(["g++", "-c", "-w", "-I", common.REPO_LIBC, "-I", vd, cpp, "-o", cpp + ".o"], "%s g++ header" % variant)
            # a unit that reaches every generated header more than once (as a diamond of imports does): the
            # include guards must make the second inclusion empty, in C and in C++
            incs = ['#include "%s_bp.h"' % main] + ['#include "%s_bp.h"' % f for f in pr["order"]] + \
                   ['#include "%s_bp.h"' % main]
            for cc_, ext_ in (("gcc", ".c"), ("g++", ".cpp")):
                twice = os.path.join(vd, "bpv_twice" + ext_)
                with open(twice, "w") as fh:
                    fh.write("\n".join(incs) + "\nint bpv_twice(void) { return 0; }\n")
                tool([cc_, "-c", "-w", "-I", common.REPO_LIBC, "-I", vd, twice, "-o", twice + ".o"],
                     "%s %s headers included repeatedly" % (variant, cc_))
            if ok:
                lc, e1 = layouts(vd, main + "_bp.h", "gcc")
                lp, e2 = layouts(vd, main + "_bp.h", "g++")
                if lc is None or lp is None:
                    events.append({"ev": "Toolchain", "ok": False, "what": "%s layout probe: %s" % (variant, e1 or e2)})
                else:
                    events.append({"ev": "Layout", "what": variant, "c": lc, "cpp": lp})
        elif variant == "go":
            for f in pr["order"]:
                text = open(os.path.join(vd, f + "_bp.go")).read()
                seq, bal = go_scan(text)
                events.append({"ev": "Balanced", "ok": bal, "what": "go %s_bp.go" % f})
                events.append({"ev": "Scan", "what": "go %s_bp.go" % f, "ordered": False, "builtins": [], "seq": seq})
    return events


def main(tier, replay=None):
    rep = Report("C10", tier)
    seed = common.seed()
    rep.assumptions += [
        "side conditions of the statement: generated names avoid reserved words of the targets and stay distinct "
        "after flattening (unique generator names)",
        "gcc / g++ / CPython are acceptance oracles outside the specification; Go is checked statically only: "
        "balanced brackets, exported identifiers declared in the file or qualified by an import, every import used",
        "the Go scanner judges capitalised identifiers and package qualifiers only (everything generated for schema "
        "definitions is exported)",
    ]
    n = 60 if tier == "quick" else 1200
    cases = []
    with common.Scratch("c10") as scratch:
        jobs = []
        for k in range(n):
            rng = random.Random("c10/%d/%d" % (seed, k))
            pr, tags = featureful(seed, k, rng)
            d = scratch.sub()
            main_path, paths = render.write_program(pr, d)
            events = []
            proto, outcome = P.observe_parse(main_path)
            if proto is None:
                # the features are all legal: a rejection is the harness's doing
                raise common.MachineryError("C10 generator produced a rejected schema: %s %s" % (outcome, sorted(tags)))
            trad = not any(x.get("ext") for ds in pr["files"].values() for x in all_decls(ds)) and \
                not any(x["d"] in ("field", "alias") and x["t"]["k"] == "array" and x["t"]["ext"]
                        for ds in pr["files"].values() for x in all_decls(ds))
            outs = {}
            variants = [("c", dict(lang="c")), ("go", dict(lang="go")), ("py", dict(lang="py"))]
            if trad:
                variants += [("c -O", dict(lang="c", optimize=True)),
                             ("c -O -F", dict(lang="c", optimize=True, filter_messages=[pr["top"]]))]
            for variant, kw in variants:
                vd = os.path.join(d, variant.replace(" ", "_"))
                os.makedirs(vd)
                try:
                    lang = kw.pop("lang")
                    # every other schema takes the command line's ordinary path: the linter runs before the renderer
                    drive.compile_program(paths, pr["order"], lang, vd, lint=(k % 2 == 0), **kw)
                    events.append({"ev": "Render", "outcome": "ok", "what": variant})
                    outs[variant] = vd
                except Exception as exc:
                    events.append({"ev": "Render", "outcome": "raise",
                                   "what": "%s: %s@%s" % ((variant,) + drive.exc_signature(exc))})
                    outs[variant] = None
            # Python: import, instantiate every message class with defaults
            if outs.get("py"):
                try:
                    import dataclasses
                    mods = {}
                    pkgs = pr.get("_py_packages", {})
                    for f, pkg in pkgs.items():
                        # lay the module out where its py.module_name option says importers find it
                        os.makedirs(os.path.join(outs["py"], pkg), exist_ok=True)
                        open(os.path.join(outs["py"], pkg, "__init__.py"), "w").close()
                        os.rename(os.path.join(outs["py"], f + "_bp.py"), os.path.join(outs["py"], pkg, f + "_bp.py"))
                    for f in pr["order"]:
                        mods[f] = drive.load_py(outs["py"], (pkgs[f] + "." if f in pkgs else "") + f + "_bp")
                    ninst = 0
                    for f, mod in mods.items():
                        for name in dir(mod):
                            obj = getattr(mod, name)
                            if isinstance(obj, type) and dataclasses.is_dataclass(obj) and obj.__module__ == mod.__name__:
                                obj()
                                ninst += 1
                    events.append({"ev": "Toolchain", "ok": True, "what": "python import + %d classes instantiated" % ninst})
                except Exception as exc:
                    events.append({"ev": "Toolchain", "ok": False,
                                   "what": "python import/instantiate: %s: %s" % (type(exc).__name__, str(exc)[:150])})
                finally:
                    drive.unload_py(outs["py"])
            jobs.append((pr, tags, d, outs))
            cases.append({"pr": pr, "tags": tags, "events": events})
            for t in tags:
                rep.feature("feature:" + t)
            rep.feature("traditional" if trad else "extensible")
        with ThreadPoolExecutor(max_workers=16) as ex:
            for c, evs in zip(cases, ex.map(one_case, jobs)):
                c["events"] += evs
        traces = [{"id": "c10-%d-%d" % (seed, i), "events": c["events"]} for i, c in enumerate(cases)]
        # every failing event of a trace is judged (a case may hit several listed findings)
        verdicts = None
        pending = list(range(len(traces)))
        results = {i: [] for i in pending}
        rounds = 0
        work = {i: list(traces[i]["events"]) for i in pending}
        while pending and rounds < 8:
            rounds += 1
            batch = [{"id": traces[i]["id"], "events": work[i]} for i in pending]
            v, r = tlc.validate_traces("DeclUseTrace", "DeclUseTrace.cfg", batch)
            rep.add_tlc(r, "trace-validation round %d" % rounds)
            nxt = []
            for i, (ok, why) in zip(pending, v):
                if ok:
                    continue
                idx = int(why.split(":")[0]) - 1
                results[i].append((work[i][idx], why.split(":", 1)[1]))
                work[i] = work[i][:idx] + work[i][idx + 1:]
                nxt.append(i)
            pending = nxt
    rep.cov["traces_validated_against_impl"] = len(traces)
    for i, c in enumerate(cases):
        rep.count("evaluations", len(c["events"]))
        rep.distinct(tuple(sorted(c["tags"])) + (render.render_file(c["pr"]["files"][c["pr"]["main"]])[:80],), True)
        if not results[i]:
            rep.sample({"features": sorted(c["tags"]), "schema": c["pr"].get("_texts"),
                        "events": [e.get("what") for e in c["events"]][:12]}, limit=3)
            continue
        for e, why in results[i]:
            if why.startswith("machinery"):
                raise common.MachineryError(why)
            case = {"features": sorted(c["tags"]), "schema": c["pr"].get("_texts"), "event": {k_: v_ for k_, v_ in e.items() if k_ != "seq"},
                    "seed": seed}
            rep.decide(case, why, sigs(c["tags"], why + " " + str(e.get("what", ""))))
    rep.cov["rule"] = ("random accepted schemas with the features C10 names (imports with/without `as`, file name != proto "
                       "name, c.name_prefix, c.struct_packing_alignment, empty messages and enums, names ending in digits, "
                       "the field name `type`, comments, a type nested in an imported message, an import used only for "
                       "constants) x {c, c -O, c -O -F, py, go}: gcc -c, g++ -c of a unit including the header, C vs C++ "
                       "sizeof/offsetof of every struct, Python import + instantiation of every message class, and the "
                       "DeclUse machine over the scanned Go text; distinct_nontrivial counts distinct (feature set, schema)")
    return rep.finish()
