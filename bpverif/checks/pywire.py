"""Engine shared by the checks that observe the Python runtime (C01, C02, C07-py, C14-py, C16-py).

For each case (program, top message, intended resolved type, values) it renders the program,
compiles it with the working tree's compiler, imports the generated module against
/repo/lib/py, performs the calls and records events.  TLC decides every event (WireTrace.tla).
"""
import json
import os
import time

from .. import common, drive, gen, render, tlc


class PyCase:
    def __init__(self, cid, prog, values, note=None):
        self.cid = cid
        self.prog = prog
        self.values = values
        self.note = note or {}
        self.events = []
        self.event_src = []    # per event: index of value it came from
        self.steps = []        # step-level runs (informational conformance)
        self.error = None


def neutral_json(x):
    """JSON value -> neutral tree for the spec (no knowledge of the schema)."""
    if isinstance(x, bool):
        return {"j": "b", "b": x}
    if isinstance(x, int):
        sm = gen.to_sm(x)
        return {"j": "n", "neg": bool(sm[0]), "mag": sm[1:]}
    if isinstance(x, list) and x and all(isinstance(p, tuple) for p in x):
        return {"j": "o", "kv": [[k, neutral_json(v)] for k, v in x]}
    if isinstance(x, list):
        return {"j": "l", "xs": [neutral_json(v) for v in x]}
    if isinstance(x, dict):
        return {"j": "o", "kv": [[k, neutral_json(v)] for k, v in x.items()]}
    return {"j": "?", "repr": repr(x)[:50]}


def parse_json_pairs(text):
    """json.loads keeping object key order and duplicates visible."""
    def hook(pairs):
        return [(k, v) for k, v in pairs] if pairs else {"__empty__": True}
    val = json.loads(text, object_pairs_hook=hook)

    def fix(v):
        if isinstance(v, dict) and v.get("__empty__"):
            return {"j": "o", "kv": []}
        return v
    return fix(val)


def to_neutral_from_pairs(x):
    if isinstance(x, dict) and x.get("j") == "o":
        return x
    if isinstance(x, dict) and x.get("__empty__"):
        return {"j": "o", "kv": []}
    if isinstance(x, bool):
        return {"j": "b", "b": x}
    if isinstance(x, int):
        sm = gen.to_sm(x)
        return {"j": "n", "neg": bool(sm[0]), "mag": sm[1:]}
    if isinstance(x, list) and x and all(isinstance(p, tuple) and len(p) == 2 and isinstance(p[0], str) for p in x):
        return {"j": "o", "kv": [[k, to_neutral_from_pairs(v)] for k, v in x]}
    if isinstance(x, list):
        return {"j": "l", "xs": [to_neutral_from_pairs(v) for v in x]}
    return {"j": "?", "repr": repr(x)[:50]}


def run_case(case, scratch, want, recorder=None, enum_as_member=True):
    """Drives one case through the real compiler and Python runtime; fills case.events."""
    prog = case.prog
    t = prog["rtype"]
    d = scratch.sub()
    ev = case.events

    def raise_event(exc, stage, vi):
        cls, where = drive.exc_signature(exc)
        ev.append({"ev": "Raise", "what": "%s@%s@%s" % (cls, where, stage)})
        case.event_src.append(vi)

    try:
        main_path, paths = render.write_program(prog, d)
        drive.compile_program(paths, prog["order"], "py", d)
        mod = drive.load_py(d, prog["main"] + "_bp")
        cls = getattr(mod, prog["top"])
    except Exception as exc:  # compile/import failure of a valid schema
        raise_event(exc, "compile", -1)
        drive.unload_py(d)
        return
    try:
        if "size" in want:
            ev.append({"ev": "Size", "n": int(cls.BYTES_LENGTH)})
            case.event_src.append(-1)
        for vi, v in enumerate(case.values):
            raw = case.note.get("raw", False)
            try:
                obj = cls()
                drive.py_set(obj, t, v, enum_as_member=enum_as_member and not raw)
            except Exception as exc:
                raise_event(exc, "assign", vi)
                continue
            if "json" in want:
                try:
                    text = obj.to_json()
                    tree = to_neutral_from_pairs(parse_json_pairs(text))
                    ev.append({"ev": "Json", "v": gen.sm_tree(t, v), "tree": tree})
                    case.event_src.append(vi)
                    dct = obj.to_dict()
                    ev.append({"ev": "Json", "v": gen.sm_tree(t, v),
                               "tree": to_neutral_from_pairs(parse_json_pairs(json.dumps(dct, default=list)))})
                    case.event_src.append(vi)
                except Exception as exc:
                    raise_event(exc, "json", vi)
            if not ({"encode", "decode"} & set(want)):
                continue
            try:
                if recorder is not None and "steps" in want:
                    recorder.start()
                b = obj.encode()
                if recorder is not None and "steps" in want:
                    case.steps.append({"mode": "enc", "v": gen.sm_tree(t, v), "bytes": list(b),
                                       "steps": recorder.stop()})
            except Exception as exc:
                if recorder is not None:
                    recorder.stop()
                raise_event(exc, "encode", vi)
                continue
            e = {"ev": "Encode", "v": gen.sm_tree(t, v), "bytes": list(b)}
            if raw:
                e["raw"] = True
            ev.append(e)
            case.event_src.append(vi)
            if "decode" not in want:
                continue
            try:
                obj2 = cls()
                if recorder is not None and "steps" in want:
                    recorder.start()
                obj2.decode(bytearray(b))
                if recorder is not None and "steps" in want:
                    st = recorder.stop()
                v2 = drive.py_get(obj2, t)
                if recorder is not None and "steps" in want:
                    case.steps.append({"mode": "dec", "v": gen.sm_tree(t, v2), "bytes": list(b),
                                       "steps": st})
            except Exception as exc:
                if recorder is not None:
                    recorder.stop()
                raise_event(exc, "decode", vi)
                continue
            ev.append({"ev": "Decode", "bytes": list(b), "v": gen.sm_tree(t, v2),
                       "expect": gen.sm_tree(t, v)})
            case.event_src.append(vi)
            try:
                b2 = obj2.encode()
            except Exception as exc:
                raise_event(exc, "re-encode", vi)
                continue
            ev.append({"ev": "ReEncode", "bytes": list(b2), "orig": list(b), "v": gen.sm_tree(t, v2)})
            case.event_src.append(vi)
    finally:
        drive.unload_py(d)


def trace_of(case):
    return {"id": case.cid, "t": gen.export_type(case.prog["rtype"]), "events": case.events}


def program_text(prog):
    return {name: render.render_file(decls) for name, decls in prog["files"].items()}


# ---------------------------------------------------------------------------------------
# shared conformance loop
# ---------------------------------------------------------------------------------------

def enum_types(t, acc=None):
    acc = acc if acc is not None else []
    k = t["k"]
    if k == "enum":
        acc.append(t)
    elif k == "alias":
        enum_types(t["to"], acc)
    elif k == "array":
        enum_types(t["elem"], acc)
    elif k == "msg":
        for f in t["fields"]:
            enum_types(f["t"], acc)
    return acc


def nontrivial(t):
    return len(t["fields"]) >= 2 or any(not gen.is_leaf(gen.strip(f["t"])) for f in t["fields"])


def validate_and_decide(rep, cases, sig_fn=None, count_events=("Encode",), sample_fn=None):
    """Sends the recorded traces of `cases` to TLC (WireTrace) and turns every rejected
    trace into a known finding or a violation."""
    from .. import tlc as _tlc
    traces = [trace_of(c) for c in cases]
    if not traces:
        return
    verdicts, r = _tlc.validate_traces("WireTrace", "WireTrace.cfg", traces)
    rep.add_tlc(r, "trace-validation")
    rep.cov["traces_validated_against_impl"] += len(traces)
    for c, (ok, why) in zip(cases, verdicts):
        rep.count("evaluations", len([e for e in c.events if e["ev"] in count_events]))
        t = c.prog["rtype"]
        rep.distinct(gen.shape_key(t), nontrivial(t))
        if ok:
            s = sample_fn(c) if sample_fn else None
            if s is None and c.events:
                e = dict(c.events[-1])
                for k in ("v", "mem", "tree", "vS", "tS", "t"):
                    if k in e and len(json.dumps(e[k])) > 400:
                        e[k] = json.dumps(e[k])[:400] + "..."
                if "bytes" in e:
                    e["bytes"] = bytes(e["bytes"]).hex()[:200]
                s = {"id": c.cid, "schema": program_text(c.prog), "last_event": e}
            if s:
                rep.sample(s)
            continue
        clause = why.split(":", 1)[-1]
        if clause.startswith("machinery"):
            raise common.MachineryError("trace %s: %s" % (c.cid, why))
        idx = int(why.split(":")[0]) - 1
        evt = c.events[idx]
        vi = c.event_src[idx] if idx < len(c.event_src) else -1
        case = {"id": c.cid, "schema": program_text(c.prog), "rtype": gen.export_type(t),
                "top": c.prog["top"], "value": c.values[vi] if vi >= 0 else None,
                "event": evt, "seed": common.seed(), "note": c.note}
        sigs = sig_fn(c, evt, clause) if sig_fn else []
        rep.decide(case, "event %d %s: %s" % (idx + 1, evt["ev"], clause), sigs)
