"""C02 -- Python decode(encode(v)) == v, re-encoding reproduces the bytes, nothing raises."""
from .. import common, drive, gen, tlc, usmall
from ..report import Report
from . import designlevel, pywire


def _sm_int(sm):
    v = sum(b << i for i, b in enumerate(sm[1:]))
    return -v if sm[0] else v


def _explained_by_d14(t, exp, obs):
    """True iff obs differs from exp only at enum leaves whose default is non-zero, and there
    obs == default | exp (the decoder ORs the wire value onto the default)."""
    k = t["k"]
    if gen.is_leaf(t):
        e, o = _sm_int(exp), _sm_int(obs)
        if e == o:
            return True
        return k == "enum" and t.get("_default", 0) != 0 and o == (t["_default"] | e)
    if k == "alias":
        return _explained_by_d14(t["to"], exp, obs)
    if k == "array":
        return all(_explained_by_d14(t["elem"], a, b) for a, b in zip(exp, obs))
    return all(_explained_by_d14(f["t"], a, b) for f, a, b in zip(t["fields"], exp, obs))


def sigs(case, evt, clause):
    """The listed finding D14 only covers failures the defect explains: a decode whose result differs
    from the encoded value exactly by default|value at enum leaves with a non-zero default, the
    re-encode of such a result, or the enum class refusing such a value (ValueError)."""
    out = []
    t = case.prog["rtype"]
    if not any(e.get("_default", 0) != 0 for e in pywire.enum_types(t)):
        return out
    if evt["ev"] == "Decode" and "expect" in evt:
        if _explained_by_d14(t, evt["expect"], evt["v"]):
            out.append("py-decode-onto-nonzero-enum-default")
    elif evt["ev"] == "ReEncode":
        out.append("py-decode-onto-nonzero-enum-default")
    elif evt["ev"] == "Raise" and evt["what"].startswith("ValueError@") and \
            evt["what"].split("@")[-1] in ("decode", "re-encode"):
        out.append("py-decode-onto-nonzero-enum-default")
    return out


def enum_offset_cases(seed, reduced):
    """Every enum width 1..64 at every bit offset 0..7 (scalar and array element), members
    including the all-ones value: the U_full slice C02 names explicitly."""
    import random
    cases = []
    widths = range(1, 65)
    for n in widths:
        for off in range(8):
            if reduced and (n + off) % 3 != 0 and n not in (1, 3, 8, 9, 12, 16, 17, 33, 64):
                continue
            rng = random.Random("enum/%d/%d/%d" % (seed, n, off))
            maxv = (1 << n) - 1
            vals = sorted({0, maxv, rng.randint(0, maxv), 1 << (n - 1), min(maxv, 300)})
            et = {"k": "enum", "n": n, "name": "E", "_vals": vals, "_default": 0}
            members = [{"d": "efield", "name": "E_%s" % gen.letters(i).upper(), "value": v}
                       for i, v in enumerate(vals)]
            body = []
            fields = []
            if off:
                body.append({"d": "field", "name": "pad", "num": 1, "t": {"k": "uint", "n": off}})
                fields.append({"num": 1, "name": "pad", "t": {"k": "uint", "n": off}})
            body.append({"d": "field", "name": "e", "num": 2, "t": gen.tref(["E"])})
            fields.append({"num": 2, "name": "e", "t": et})
            body.append({"d": "field", "name": "es", "num": 3,
                         "t": {"k": "array", "elem": gen.tref(["E"]), "cap": gen.lit(3), "ext": False}})
            fields.append({"num": 3, "name": "es", "t": {"k": "array", "ext": False, "cap": 3, "elem": et}})
            body.append({"d": "field", "name": "tail", "num": 4, "t": {"k": "uint", "n": 3}})
            fields.append({"num": 4, "name": "tail", "t": {"k": "uint", "n": 3}})
            prog = {"files": {"main": [{"d": "proto", "name": "main"},
                                       {"d": "enum", "name": "E", "n": n, "body": members},
                                       {"d": "message", "name": "Top", "ext": False, "body": body}]},
                    "order": ["main"], "main": "main", "top": "Top",
                    "rtype": {"k": "msg", "name": "Top", "ext": False, "fields": fields}}
            values = []
            for v in vals:
                row = []
                if off:
                    row.append((1 << off) - 1)
                row += [v, [v, vals[0], vals[-1]], 5]
                values.append(row)
            cases.append(pywire.PyCase("c02-enum-%d-%d" % (n, off), prog, values))
    return cases


def main(tier, replay=None):
    rep = Report("C02", tier)
    seed = common.seed()
    rep.assumptions += [
        "resolved type used by the spec is the generator's intended type tree",
        "values in range; decode into a freshly constructed message",
        "equality is on the integer value of each leaf (an IntEnum member equals its number)",
    ]
    inv = ("InBounds", "DecRefines", "WireRoundTrip", "ChunkShape")
    if tier == "quick":
        designlevel.codec_design(rep, "U_small depth1 dec same-schema", depth=1, caps=(1, 5), leafset="small",
                                 evo=0, modes=("dec",), invariants=inv, properties=())
    else:
        designlevel.codec_design(rep, "U_small depth2 dec same-schema (leaf uint3)", depth=2, caps=(1, 5), leafset="tiny",
                                 evo=0, modes=("dec",), invariants=inv, properties=())
        designlevel.codec_design(rep, "U_small depth1 wide dec", depth=1, caps=(1, 2, 6), leafset="wide",
                                 evo=0, modes=("dec",), invariants=inv, properties=())
    # liveness: under weak fairness every run of the cursor machine (encode, decode, decode of evolved data) ends
    # in "done" or "fault" -- no run of the machine loops (PROPERTY Termination, same- and evolved-schema)
    designlevel.codec_design(rep, "U_small depth1 enc+dec, 1 evolution step: Termination (liveness, WF)", depth=1,
                             caps=(1, 2), leafset="small", evo=1, modes=("enc", "dec"), invariants=("InBounds",),
                             properties=(), liveness=True)
    # negative control: the implementation's original skip distance must be refuted
    r = designlevel.run_cfg("MC_Codec", designlevel.codec_cfg(
        depth=1, caps=(5,), leafset="small", evo=0, modes=("dec",), impl_skip=True,
        invariants=("InBounds", "DecRefines"), properties=()))
    tlc.machinery_check(r, "negative control")
    if r.ok:
        raise common.MachineryError("negative control (ahead*cap skip) was not refuted: model is vacuous")
    rep.cov["negative_control_refuted"] = r.violated

    nschemas, nvalues = (300, 6) if tier == "quick" else (4000, 16)
    cases = []
    with common.Scratch("c02") as scratch:
        for k in range(nschemas):
            prog, rng = gen.rand_case(seed, k, big_arrays=(k % 10 == 0),
                                      p_enum_nonzero_first=0.05 if k % 7 == 0 else 0.0)
            if k % 8 == 3:
                prog = gen.wrap_diamond(prog, rng)   # three files: app imports main and the file main imports
            t = prog["rtype"]
            vals = [gen.gen_value(rng, t, "zero"), gen.gen_value(rng, t, "ones")]
            vals += [gen.gen_value(rng, t, "rand") for _ in range(nvalues - 2)]
            c = pywire.PyCase("c02-%d-%d" % (seed, k), prog, vals)
            pywire.run_case(c, scratch, want=("encode", "decode"), enum_as_member=(k % 2 == 0))
            cases.append(c)
            for f in gen.features(t):
                rep.feature(f)
        # direction spec -> code: the complete universe U_small with its basis values, written by TLC
        for k, prog, vals in usmall.programs(rep, tier, "Python encode / decode / re-encode"):
            c = pywire.PyCase("c02-usmall-%d" % k, prog, vals)
            pywire.run_case(c, scratch, want=("encode", "decode"))
            cases.append(c)
            rep.feature("u_small")
        ecases = enum_offset_cases(seed, reduced=(tier == "quick"))
        for c in ecases:
            pywire.run_case(c, scratch, want=("encode", "decode"))
            rep.feature("enum-offset-slice")
        cases += ecases
    # ---- beyond the listed properties (informational, never a verdict) ----
    # (a) decoding arbitrary buffers: Wire!Dec is total, so the specification predicts the value or a
    #     read outside the buffer (hostile "ahead"); (b) a NEWER receiver decoding an OLDER sender's
    #     bytes (the direction C05 does not claim): the same Decode guard on zero-padded bytes.
    import random as _random
    from .. import evolve as _evolve
    extra = []
    with common.Scratch("c02x") as scratch:
        for k in range(60 if tier == "quick" else 800):
            rng = _random.Random("c02x/%d/%d" % (seed, k))
            g = gen.RandSchema(rng, gen.Cfg(max_bits=rng.choice([60, 200]), p_ext=0.6, enums=False, max_depth=3))
            base = g.build()
            t = base["rtype"]
            c = pywire.PyCase("c02-any-%d" % k, base, [])
            d = scratch.sub()
            try:
                from .. import render as _render
                main_path, paths = _render.write_program(base, d)
                drive.compile_program(paths, base["order"], "py", d)
                mod = drive.load_py(d, base["main"] + "_bp")
                cls = getattr(mod, base["top"])
                for _ in range(4):
                    raw = bytearray(rng.getrandbits(8) if rng.random() < 0.7 else 0 for _ in range(cls.BYTES_LENGTH))
                    o = cls()
                    try:
                        o.decode(bytearray(raw))
                        c.events.append({"ev": "DecodeAny", "bytes": list(raw), "outcome": "value",
                                         "v": gen.sm_tree(t, drive.py_get(o, t))})
                    except IndexError:
                        c.events.append({"ev": "DecodeAny", "bytes": list(raw), "outcome": "IndexError", "v": []})
                    except Exception as exc:
                        c.events.append({"ev": "DecodeAny", "bytes": list(raw), "outcome": type(exc).__name__, "v": []})
                # (c) decode into a target that already holds a value (the runtime ORs chunks into the fields)
                for _ in range(2):
                    oldv, newv = gen.gen_value(rng, t, "rand"), gen.gen_value(rng, t, "rand")
                    src = cls()
                    drive.py_set(src, t, newv)
                    wire = bytes(src.encode())
                    o = cls()
                    drive.py_set(o, t, oldv)
                    try:
                        o.decode(bytearray(wire))
                        c.events.append({"ev": "DecodeOnto", "old": gen.sm_tree(t, oldv), "bytes": list(wire),
                                         "v": gen.sm_tree(t, drive.py_get(o, t))})
                    except Exception as exc:
                        c.events.append({"ev": "DecodeAny", "bytes": list(wire), "outcome": "onto:" + type(exc).__name__, "v": []})
                # (b) newer receiver, older sender
                if gen.has_ext(t):
                    versions, descr = _evolve.chain(base, rng, 2)
                    if len(versions) >= 2:
                        new = versions[-1]
                        olds = []
                        for _ in range(2):
                            o = cls()
                            drive.py_set(o, t, gen.gen_value(rng, t, "rand"))
                            olds.append(bytes(o.encode()))
                        drive.unload_py(d)
                        d2 = scratch.sub()
                        mp2, paths2 = _render.write_program(new, d2)
                        drive.compile_program(paths2, new["order"], "py", d2)
                        mod2 = drive.load_py(d2, new["main"] + "_bp")
                        cls2 = getattr(mod2, new["top"])
                        try:
                            for b in olds:
                                padded = bytearray(b) + bytearray(max(0, cls2.BYTES_LENGTH - len(b)))
                                o2 = cls2()
                                try:
                                    o2.decode(bytearray(padded))
                                    c.events.append({"ev": "DecodeAny", "t": gen.export_type(new["rtype"]),
                                                     "bytes": list(padded), "outcome": "value",
                                                     "v": gen.sm_tree(new["rtype"], drive.py_get(o2, new["rtype"]))})
                                except IndexError:
                                    c.events.append({"ev": "DecodeAny", "t": gen.export_type(new["rtype"]),
                                                     "bytes": list(padded), "outcome": "IndexError", "v": []})
                        finally:
                            drive.unload_py(d2)
            except Exception as exc:
                c.events.append({"ev": "Raise", "what": "harness:%s" % type(exc).__name__})
            finally:
                drive.unload_py(d)
            c.event_src = [-1] * len(c.events)
            extra.append(c)
    xtraces = [pywire.trace_of(c) for c in extra if c.events]
    if xtraces:
        xv, xr = tlc.validate_traces("WireTrace", "WireTrace.cfg", xtraces)
        rep.add_tlc(xr, "beyond listed properties: arbitrary buffers and newer-receiver decodes (informational)")
        nev = sum(len(tr["events"]) for tr in xtraces)
        outside = sum(1 for tr in xtraces for e in tr["events"] if e.get("outcome") == "IndexError")
        rep.cov["beyond_listed_properties"] = {
            "what": "Wire!Dec on arbitrary buffers (value or read-outside-buffer = IndexError) and on older-sender bytes "
                    "decoded by a newer receiver; informational, never a verdict",
            "decodes": nev, "runs_ending_outside_the_buffer": outside,
            "decodes_into_a_target_holding_a_value (OntoV: bitwise OR per leaf, booleans assigned)":
                sum(1 for tr in xtraces for e in tr["events"] if e["ev"] == "DecodeOnto"),
            "traces_not_explained_by_the_specification": [why for ok, why in xv if not ok][:5]}
    rep.cov["rule"] = ("U_rand schemas x {zero, all-ones/min, boundary-biased random} values plus the slice "
                       "{enum width 1..64} x {bit offset 0..7} x {scalar, array element}; one evaluation is one "
                       "encode->decode->re-encode round trip; distinct_nontrivial counts distinct schema shapes "
                       "with >= 2 fields or a composite field")

    def sample(c):
        e = [e for e in c.events if e["ev"] == "Decode"]
        if e:
            return {"schema": pywire.program_text(c.prog), "value": c.values[-1],
                    "bytes_hex": bytes(e[-1]["bytes"]).hex()}
    pywire.validate_and_decide(rep, cases, sig_fn=sigs, count_events=("Decode",), sample_fn=sample)
    return rep.finish()
