"""C07 -- encoding touches exactly its bytes, and each field exactly its bits."""
import os
import random
import re
import subprocess

from .. import cdrive, common, drive, gen, render, tlc
from ..report import Report
from . import cwire, designlevel, pywire


def raw_value(rng, t):
    """Value tree with out-of-range integers in integer leaves (bool/enum stay in range)."""
    k = t["k"]
    if gen.is_leaf(t):
        if k in ("bool", "enum"):
            return gen.gen_leaf(rng, t, "rand")
        n = gen.leaf_bits(t)
        r = rng.random()
        if r < 0.25:
            return (1 << n) + rng.randrange(1 << n)                 # just too large
        if r < 0.5:
            return -rng.randrange(1, 1 << (n + 3))                   # negative (also for unsigned)
        if r < 0.75:
            return rng.getrandbits(n + rng.randint(1, 70)) | (1 << (n + 1))   # far too large
        return -(1 << rng.randint(n, n + 80)) + rng.randrange(1 << n)
    if k == "alias":
        return raw_value(rng, t["to"])
    if k == "array":
        return [raw_value(rng, t["elem"]) for _ in range(t["cap"])]
    return [raw_value(rng, f["t"]) for f in t["fields"]]


def py_raw_set(obj, t, v):
    """Assigns raw integers (bytearray elements cannot hold them: kept in range there)."""
    for f, x in zip(t["fields"], v):
        ft = gen.strip(f["t"])
        if gen.is_leaf(ft):
            setattr(obj, f["name"], bool(x) if ft["k"] == "bool" else x)
        elif ft["k"] == "array":
            _py_raw_arr(getattr(obj, f["name"]), ft, x)
        else:
            py_raw_set(getattr(obj, f["name"]), ft, x)


def _py_raw_arr(arr, t, v):
    et = gen.strip(t["elem"])
    for i, x in enumerate(v):
        if gen.is_leaf(et):
            if isinstance(arr, bytearray):
                v[i] = x & 255          # a bytearray cannot hold anything else
                arr[i] = v[i]
            else:
                arr[i] = bool(x) if et["k"] == "bool" else x
        elif et["k"] == "array":
            _py_raw_arr(arr[i], et, x)
        else:
            py_raw_set(arr[i], et, x)


SIZE_C = re.compile(r"^#define\s+BYTES_LENGTH_(\w+)\s+(\d+)\s*$", re.M)
SIZE_GO = re.compile(r"^const\s+BYTES_LENGTH_(\w+)\s+uint32\s*=\s*(\d+)\s*$", re.M)


def size_events(prog, d, rep):
    """Size constants of every message in the three languages -> traces (one per message)."""
    main_path, paths = render.write_program(prog, d)
    traces = []
    texts = {}
    for lang in ("c", "go", "py"):
        drive.compile_program(paths, prog["order"], lang, d)
    consts = {"c": {}, "go": {}}
    for name in prog["order"]:
        with open(os.path.join(d, name + "_bp.h")) as f:
            consts["c"][name] = dict((k, int(v)) for k, v in SIZE_C.findall(f.read()))
        with open(os.path.join(d, name + "_bp.go")) as f:
            consts["go"][name] = dict((k, int(v)) for k, v in SIZE_GO.findall(f.read()))
    mods = {}
    try:
        for name in prog["order"]:
            mods[name] = drive.load_py(d, name + "_bp")
        for file, path, m in gen.all_messages(prog):
            key = "_".join(cdrive.upper_snake(p) for p in path)
            evs = []
            for lang in ("c", "go"):
                if key not in consts[lang][file]:
                    raise common.MachineryError("size constant BYTES_LENGTH_%s not found in %s output" % (key, lang))
                evs.append({"ev": "Size", "lang": lang, "n": consts[lang][file][key]})
            cls = getattr(mods[file], "_".join(path), None)
            if cls is None:
                raise common.MachineryError("python class %s not found" % "_".join(path))
            evs.append({"ev": "Size", "lang": "py", "n": int(cls.BYTES_LENGTH)})
            traces.append({"id": "size:%s" % ".".join(path), "t": gen.export_type(m), "events": evs})
    finally:
        drive.unload_py(d)
    return traces


ASAN_DRIVER = r'''
#include <stdio.h>
#include <stdlib.h>
#include <string.h>
#include "%(header)s"
static int hexval(int c) { return c <= '9' ? c - '0' : (c | 32) - 'a' + 10; }
int main(void) {
    static char line[1 << 20];
    size_t sz = sizeof(struct %(top)s);
    size_t bl = BYTES_LENGTH_%(TOP)s;
    while (fgets(line, sizeof line, stdin)) {
        char op = line[0];
        char *hex = line + 2;
        size_t n = strlen(hex);
        while (n && (hex[n-1] == '\n' || hex[n-1] == '\r')) n--;
        n /= 2;
        /* exact-size heap objects: ASan is byte precise there */
        unsigned char *m = (unsigned char *)malloc(sz ? sz : 1);
        unsigned char *s = (unsigned char *)malloc(bl ? bl : 1);
        if (op == 'e') {
            for (size_t k = 0; k < sz && k < n; k++) m[k] = (unsigned char)(hexval(hex[2*k]) * 16 + hexval(hex[2*k+1]));
            memset(s, 0, bl);
            Encode%(top)s((struct %(top)s *)m, s);
            printf("e ");
            for (size_t k = 0; k < bl; k++) printf("%%02x", s[k]);
            printf("\n");
        } else {
            memset(m, 0, sz);
            for (size_t k = 0; k < bl && k < n; k++) s[k] = (unsigned char)(hexval(hex[2*k]) * 16 + hexval(hex[2*k+1]));
            Decode%(top)s((struct %(top)s *)m, s);
            printf("d ");
            for (size_t k = 0; k < sz; k++) printf("%%02x", m[k]);
            printf("\n");
        }
        free(m);
        free(s);
    }
    return 0;
}
'''


def asan_run(scratch, prog, optimize, values_images, bufs, cc="gcc"):
    """Builds generated code + runtime with ASan/UBSan as a stand-alone program working on
    exact-size heap allocations; returns (status, text)."""
    d = scratch.sub()
    main_path, paths = render.write_program(prog, d)
    outs = drive.compile_program(paths, prog["order"], "c", d, optimize=optimize)
    cs = [o for name in prog["order"] for o in outs[name] if o.endswith(".c")]
    drv = os.path.join(d, "bpv_asan.c")
    with open(drv, "w") as f:
        f.write(ASAN_DRIVER % {"header": prog["main"] + "_bp.h", "top": prog["top"],
                               "TOP": cdrive.upper_snake(prog["top"])})
    exe = os.path.join(d, "bpv_asan")
    cmd = [cc, "-g", "-O1", "-w", "-fsanitize=address,undefined", "-fno-sanitize=alignment",
           "-fno-sanitize-recover=undefined", "-fno-omit-frame-pointer",
           "-I", common.REPO_LIBC, "-I", d] + cs + [os.path.join(common.REPO_LIBC, "bitproto.c"), drv, "-o", exe]
    p = subprocess.run(cmd, capture_output=True, text=True)
    if p.returncode != 0:
        return "build-failed", p.stderr[-400:]
    inp = "".join("e %s\n" % m.hex() for m in values_images) + "".join("d %s\n" % b.hex() for b in bufs)
    env = dict(os.environ, ASAN_OPTIONS="detect_leaks=0:abort_on_error=0:exitcode=86", UBSAN_OPTIONS="print_stacktrace=1")
    p = subprocess.run([exe], input=inp, capture_output=True, text=True, env=env, timeout=3000)
    if p.returncode != 0:
        lines = [l for l in p.stderr.splitlines() if "ERROR" in l or "runtime error" in l or "SUMMARY" in l]
        return "fault", (lines[0] if lines else "rc=%d" % p.returncode)[:300]
    return "ok", p.stdout


def main(tier, replay=None):
    rep = Report("C07", tier)
    seed = common.seed()
    rep.assumptions += [
        "the encoder's contract is a zero-filled output buffer (as in the documentation's examples)",
        "out-of-range values only in integer leaves (bool and enum leaves stay in range); Python byte arrays are "
        "bytearrays and cannot hold out-of-range elements",
        "faults are observed as death of the worker process (guard pages at both ends of exact-size objects), "
        "overwritten canaries, or an ASan/UBSan report on exact-size heap objects",
    ]
    # design level: footprint / containment invariants of the cursor machine with garbage above each leaf
    designlevel.codec_design(rep, "U_small depth1 enc, RawPad=9", depth=1, caps=(1, 5), leafset="small",
                             evo=0, modes=("enc",), rawpad=9,
                             invariants=("InBounds", "EncRefines", "ChunkShape"), properties=("OnlyOwnSlot",))
    n_sz, n_py, n_c, n_asan = (60, 120, 60, 16) if tier == "quick" else (600, 2000, 500, 200)
    worker = cdrive.Worker()
    try:
        with common.Scratch("c07") as scratch:
            # (i) size constants in C, Go, Python for every message of every program
            traces = []
            for k in range(n_sz):
                prog, rng = gen.rand_case(seed, 50000 + k)
                traces += size_events(prog, scratch.sub(), rep)
            verdicts, r = tlc.validate_traces("WireTrace", "WireTrace.cfg", traces)
            rep.add_tlc(r, "trace-validation:size-constants")
            rep.cov["traces_validated_against_impl"] += len(traces)
            rep.count("size_constants_checked", 3 * len(traces))
            for tr, (ok, why) in zip(traces, verdicts):
                rep.count("evaluations", 3)
                if not ok:
                    rep.decide({"trace": tr, "seed": seed}, "size constant: %s" % why, [])
            # (ii) Python: overdriven integer fields
            pycases = []
            for k in range(n_py):
                prog, rng = gen.rand_case(seed, 60000 + k)
                t = prog["rtype"]
                c = pywire.PyCase("c07-py-%d-%d" % (seed, k), prog, [], note={"raw": True})
                d = scratch.sub()
                try:
                    main_path, paths = render.write_program(prog, d)
                    drive.compile_program(paths, prog["order"], "py", d)
                    mod = drive.load_py(d, prog["main"] + "_bp")
                    cls = getattr(mod, prog["top"])
                    for _ in range(4):
                        v = raw_value(rng, t)
                        o = cls()
                        try:
                            py_raw_set(o, t, v)
                            b = o.encode()
                            c.events.append({"ev": "Encode", "raw": True, "v": gen.sm_tree(t, v), "bytes": list(b)})
                        except Exception as exc:
                            c.events.append({"ev": "Raise", "what": "%s@%s@encode-raw" % drive.exc_signature(exc)})
                        c.values.append(v)
                        c.event_src.append(len(c.values) - 1)
                except Exception as exc:
                    c.events.append({"ev": "Raise", "what": "%s@%s@compile" % drive.exc_signature(exc)})
                    c.event_src.append(-1)
                finally:
                    drive.unload_py(d)
                pycases.append(c)
            pywire.validate_and_decide(rep, pycases, count_events=("Encode",))
            # (iii) C: guard pages at both ends, arbitrary storage contents, standard and -O mode
            for optimize in (False, True):
                builder = cdrive.CBuilder(scratch, cflags=("-O2",))
                cases = []
                for k in range(n_c):
                    if k % 3 == 2 and not optimize:
                        # "wire size == 8 * sizeof" coincidences (see gen.COINCIDENCE)
                        prog, rng = gen.rand_case(seed, 70000 + k, max_bits=400, max_depth=3, **gen.COINCIDENCE)
                    else:
                        prog, rng = gen.rand_case(seed, 70000 + k + (5000 if optimize else 0),
                                                  p_ext=0.0 if optimize else 0.3)
                    t = prog["rtype"]
                    vals = [gen.gen_value(rng, t, "ones"), gen.gen_value(rng, t, "rand")]
                    cases.append(cwire.CCase("c07-c%s-%d-%d" % ("O" if optimize else "", seed, k), prog, vals))
                if not optimize:
                    from . import ufull as _ufull
                    for gi, gp in enumerate(_ufull.grid_progs(None if tier != "quick" else [4, 6, 7, 12, 24, 28, 56, 60])):
                        grng = random.Random("c07grid/%d/%d" % (seed, gi))
                        cases.append(cwire.CCase("c07-grid-%d" % gi, gp, [gen.gen_value(grng, gp["rtype"], "ones"),
                                                                          gen.gen_value(grng, gp["rtype"], "rand")]))
                built = cwire.prepare(cases, scratch, builder, optimize=optimize)
                for c, lib in built:
                    if lib is None:
                        continue
                    for guard in ("high", "low"):
                        cwire.drive_case(c, lib, worker, want=("enc", "dec", "size"), guard=guard, tag=guard + ":")
                    # arbitrary storage contents in integer leaves
                    rng = random.Random("c07raw/%s" % c.cid)
                    raw_ops = []
                    imgs = []
                    for _ in range(3):
                        v = raw_value(rng, c.prog["rtype"])
                        img = lib.image(v)
                        imgs.append(img)
                        raw_ops.append(["enc", img.hex()])
                    top = c.prog["top"]
                    st, res = worker.call({"so": lib.so, "enc": "Encode" + top, "dec": "Decode" + top, "json": None,
                                           "sizeof": lib.sizeof, "buflen": lib.bytes_length, "guard": "high",
                                           "ops": raw_ops})
                    if st != "ok":
                        c.events.append({"ev": "Fault", "what": "raw:%s:%s" % (st, res)})
                        c.event_src.append(-1)
                    else:
                        for img, r in zip(imgs, res):
                            c.events.append({"ev": "CEncode", "mem": lib.read_image(img),
                                             "bytes": list(bytes.fromhex(r["buf"]))})
                            c.event_src.append(-1)
                    rep.feature("c-mode:" + ("optimization" if optimize else "standard"))
                pywire.validate_and_decide(rep, cases, count_events=("CEncode", "CDecode"))
            # (iv) ASan/UBSan on exact-size heap objects
            acases = []
            for k in range(n_asan):
                optimize = (k % 2 == 1)
                prog, rng = gen.rand_case(seed, 80000 + k, p_ext=0.0 if optimize else 0.3, max_bits=400)
                t = prog["rtype"]
                c = cwire.CCase("c07-asan-%d-%d" % (seed, k), prog, [])
                builder = cdrive.CBuilder(scratch, cflags=("-O1",))
                built = cwire.prepare([c], scratch, builder, optimize=optimize)
                lib = built[0][1]
                if lib is not None:
                    vals = [gen.gen_value(rng, t, "ones"), gen.gen_value(rng, t, "rand"), gen.gen_value(rng, t, "rand")]
                    imgs = [lib.image(v) for v in vals]
                    # wire buffers from the ordinary build (already judged in (iii)-style events here)
                    top = prog["top"]
                    st, res = worker.call({"so": lib.so, "enc": "Encode" + top, "dec": "Decode" + top, "json": None,
                                           "sizeof": lib.sizeof, "buflen": lib.bytes_length, "guard": "none",
                                           "ops": [["enc", i.hex()] for i in imgs]})
                    bufs = [bytes.fromhex(r["buf"]) for r in res] if st == "ok" else []
                    status, text = asan_run(scratch, prog, optimize, imgs, bufs)
                    if status == "fault":
                        c.events.append({"ev": "Fault", "what": "sanitizer:" + text})
                        c.event_src.append(-1)
                    elif status == "build-failed":
                        raise common.MachineryError("ASan build failed: %s" % text)
                    else:
                        lines = text.strip().splitlines()
                        for v, img, line in zip(vals, imgs, [l for l in lines if l.startswith("e ")]):
                            c.values.append(v)
                            c.events.append({"ev": "CEncode", "v": gen.sm_tree(t, v), "mem": lib.read_image(img),
                                             "bytes": list(bytes.fromhex(line[2:]))})
                            c.event_src.append(len(c.values) - 1)
                        for b, line in zip(bufs, [l for l in lines if l.startswith("d ")]):
                            c.events.append({"ev": "CDecode", "bytes": list(b),
                                             "mem": lib.read_image(bytes.fromhex(line[2:]))})
                            c.event_src.append(-1)
                    rep.feature("asan:" + ("optimization" if optimize else "standard"))
                acases.append(c)
            pywire.validate_and_decide(rep, acases, count_events=("CEncode", "CDecode"))
    finally:
        worker.close()
    rep.cov["rule"] = ("(i) every message's size constant in C/Go/Python vs NBytes; (ii) Python encodes of arbitrary "
                       "out-of-range integers; (iii) C Encode/Decode with struct and buffer flush against PROT_NONE "
                       "pages (high and low end) and arbitrary storage contents, standard and -O mode; (iv) ASan+UBSan "
                       "stand-alone runs on exact-size heap objects. distinct_nontrivial counts distinct schema shapes.")
    return rep.finish()
