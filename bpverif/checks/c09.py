"""C09 -- compilation is total: any input text yields success or a parser error."""
import glob
import os
import random

from .. import common, drive, flatprog, gen, prog as P, render
from ..report import Report
from . import comptrace

VOCAB = ["proto", "import", "option", "type", "const", "enum", "message", "typedef", "bool", "byte",
         "uint0", "uint1", "uint8", "uint64", "uint65", "int0", "int1", "int33", "int64", "int65", "uint", "int",
         "true", "false", "yes", "no", "0", "1", "255", "256", "65535", "65536", "0x0", "0xff", "0xFFFFFFFFFFFFFFFFF",
         "99999999999999999999999", ":", ";", "{", "}", "[", "]", "(", ")", "/", "=", "\\", "'", ".", "+", "-", "*",
         '"s"', '"a\\"b"', '"a\\qb"', '"unterminated', '""', "//", "// comment", "A", "B", "x", "max_bytes",
         "c.name_prefix", "A.B", "A.", ".A", "_", "type", "\n", "\n", "\t", " ", "\r\n", "é", "中", "\x00", "@", "#", "$",
         "9" * 4400, "uint" + "9" * 4400]


KEYWORDS = {"proto", "import", "option", "type", "typedef", "const", "enum", "message", "bool", "byte", "true",
            "false", "yes", "no", "bitproto"}
ODD_IDENTS = ["_", "__", "___", "a__b", "A__B", "Ab__Cd", "x_", "X_", "_x", "_X", "__x", "x__", "_1", "a_1_", "A1_", "a_b_",
              "_A_b", "aB", "ABc", "a1b2", "I", "l", "O0", "Z" * 300, "z_" * 100, "int", "uint", "Int8", "uint8_t",
              "struct", "class", "def", "func", "None", "self", "import_", "go", "nil", "NULL", "return"]
ODD_PREFIXES = ["my_", "_", "__", "x__", "X_", "my", "9", "a-b", "", " ", "é", "a b", "_my_"]


def sig(what):
    out = []
    if what.startswith("IndexError@compiler/bitproto/renderer/impls/py/formatter.py:format_default_value_enum"):
        out.append("py-render-empty-enum")
    return out


def text_mutants(text, rng, n):
    out = []
    lines = text.split("\n")
    for _ in range(n):
        t = text
        for _ in range(rng.choice([1, 1, 1, 2, 3])):
            op = rng.choice(["del-char", "ins-char", "rep-token", "ins-token", "dup-line", "swap-lines", "truncate",
                             "del-line", "del-token", "odd-ident", "odd-ident", "name-prefix",
                             "ident-for-literal", "ident-for-literal", "literal-for-ident"])
            if not t:
                t = rng.choice(VOCAB)
                continue
            if op == "odd-ident":
                # every occurrence of one identifier becomes an unusual (but lexically valid) one: the schema
                # mostly stays valid, and the renderers' and the linter's name handling sees the odd spelling
                import re as _re
                ids = sorted(set(_re.findall(r"[A-Za-z_][A-Za-z0-9_]*", t)) - KEYWORDS)
                if ids:
                    old_id = rng.choice(ids)
                    new_id = rng.choice(ODD_IDENTS)
                    t = _re.sub(r"(?<![A-Za-z0-9_])%s(?![A-Za-z0-9_])" % _re.escape(old_id), new_id, t)
            elif op in ("ident-for-literal", "literal-for-ident"):
                # a name where a literal stands (an enum value, a field number, a capacity naming a constant of
                # any kind), or a literal where a name stands
                import re as _re
                ids = sorted(set(_re.findall(r"[A-Za-z_][A-Za-z0-9_.]*", t)) - KEYWORDS)
                lits = [m_ for m_ in _re.finditer(r"(?<![A-Za-z0-9_.])(?:0x[0-9a-fA-F]+|[0-9]+)(?![A-Za-z0-9_])", t)]
                if op == "ident-for-literal" and ids and lits:
                    m_ = rng.choice(lits)
                    name_ = rng.choice(ids)
                    t = t[:m_.start()] + name_ + t[m_.end():]
                    if rng.random() < 0.6:
                        # make sure constants of every kind exist to be named: a string, a boolean, an integer
                        name2 = rng.choice(["ZZ_S", "ZZ_B", "ZZ_I"])
                        t = t[:m_.start()] + name2 + t[m_.start() + len(name_):]
                        ls = t.split("\n")
                        at = [i for i, l in enumerate(ls) if l.strip().startswith("proto ")]
                        ls[(at[0] + 1) if at else 0:(at[0] + 1) if at else 0] = [
                            'const ZZ_S = "x"', "const ZZ_B = true", "const ZZ_I = 3"]
                        t = "\n".join(ls)
                elif op == "literal-for-ident" and ids:
                    occ = [m_ for m_ in _re.finditer(r"[A-Za-z_][A-Za-z0-9_.]*", t) if m_.group(0) not in KEYWORDS]
                    m_ = rng.choice(occ)
                    t = t[:m_.start()] + rng.choice(["0", "1", "7", "0x10", '"s"', "true"]) + t[m_.end():]
            elif op == "name-prefix":
                ls = t.split("\n")
                at = [i for i, l in enumerate(ls) if l.strip().startswith("proto ")]
                ls.insert((at[0] + 1) if at else 0, 'option c.name_prefix = "%s"' % rng.choice(ODD_PREFIXES))
                t = "\n".join(ls)
            elif op == "del-char":
                i = rng.randrange(len(t))
                t = t[:i] + t[i + 1:]
            elif op == "ins-char":
                i = rng.randrange(len(t) + 1)
                t = t[:i] + rng.choice("{}[]()'\";:=./\\+-*0x9aZ_ \n\té#") + t[i:]
            elif op in ("rep-token", "ins-token", "del-token"):
                toks = t.split(" ")
                i = rng.randrange(len(toks))
                if op == "rep-token":
                    toks[i] = rng.choice(VOCAB)
                elif op == "ins-token":
                    toks.insert(i, rng.choice(VOCAB))
                else:
                    del toks[i]
                t = " ".join(toks)
            elif op == "truncate":
                t = t[:rng.randrange(len(t))]
            else:
                ls = t.split("\n")
                i = rng.randrange(len(ls))
                if op == "dup-line":
                    ls.insert(i, ls[i])
                elif op == "del-line":
                    del ls[i]
                else:
                    j = rng.randrange(len(ls))
                    ls[i], ls[j] = ls[j], ls[i]
                t = "\n".join(ls)
        out.append(t)
    return out


def soup(rng):
    return " ".join(rng.choice(VOCAB) for _ in range(rng.randint(1, 40)))


def render_events(main_path, d, langs=("c", "go", "py")):
    """Renders an accepted schema for every language; one event per language."""
    common.use_repo()
    from bitproto.errors import RendererError
    evs = []
    out = os.path.join(d, "rout")
    os.makedirs(out, exist_ok=True)
    for lang in langs:
        try:
            drive.compile_inproc(main_path, lang, out)
            evs.append({"ev": "Render", "lang": lang, "outcome": "ok", "what": ""})
        except RendererError as e:
            evs.append({"ev": "Render", "lang": lang, "outcome": "renderer-error", "what": type(e).__name__})
        except Exception as e:
            evs.append({"ev": "Render", "lang": lang, "outcome": "raise",
                        "what": "%s@%s" % drive.exc_signature(e)})
    # optimization mode needs a traditional parse
    try:
        drive.compile_inproc(main_path, "c", out, optimize=True)
        evs.append({"ev": "Render", "lang": "c-O", "outcome": "ok", "what": ""})
    except Exception as e:
        from bitproto.errors import ParserError
        if isinstance(e, (ParserError, RendererError)):
            evs.append({"ev": "Render", "lang": "c-O", "outcome": "renderer-error", "what": type(e).__name__})
        else:
            evs.append({"ev": "Render", "lang": "c-O", "outcome": "raise", "what": "%s@%s" % drive.exc_signature(e)})
    return evs


def main(tier, replay=None):
    rep = Report("C09", tier)
    seed = common.seed()
    rep.assumptions += [
        "input is text decodable as UTF-8; allowed outcomes: a schema, a ParserError (any subclass), an OSError "
        "for an import that cannot be read; rendering an accepted schema may only raise RendererError",
        "'never hangs' is observed as a limit of 20 s of CPU time per parse (garbage collection excluded) (60 s per command-line run), not wall-clock time",
        "totality over 'any text' is sampled (mutations of valid schemas, token soup, truncations), not proved; the "
        "specification contributes the outcome typing, the exact acceptance verdict for declaration-level mutants "
        "and the termination bound of the Compiler machine",
    ]
    nprog, nmut, ntext, nsoup = (80, 8, 12, 400) if tier == "quick" else (700, 10, 16, 10000)     # about 50 minutes on 16 cores (single-threaded parses)
    traces, metas = [], []
    with common.Scratch("c09") as scratch:
        # (a) declaration-level mutants: the Compiler machine knows the exact verdict
        for k in range(nprog):
            rng = random.Random("c09/%d/%d" % (seed, k))
            pr, _ = gen.rand_case(seed, 130000 + k, max_bits=rng.choice([60, 300, 1000]), p_empty_msg=0.1)
            d0 = scratch.sub()
            render.write_program(pr, d0)
            base = flatprog.flat_files(pr)
            for m in range(nmut):
                fs, notes = flatprog.mutate(base, rng, rng.choice([1, 1, 2, 3]))
                d = scratch.sub()
                for name, ds in fs.items():
                    with open(os.path.join(d, name + ".bitproto"), "w") as f:
                        f.write(flatprog.render_flat(ds))
                main_path = os.path.join(d, pr["main"] + ".bitproto")
                proto, outcome = P.observe_parse(main_path)
                names = list(fs)
                obs = [dict(outcome, ev="OutcomeAcc"), {"ev": "Terminates"}]
                if proto is not None:
                    obs += render_events(main_path, d)
                traces.append({"id": "c09-decl-%d-%d-%d" % (seed, k, m),
                               "files": [{"name": n, "decls": fs[n]} for n in names],
                               "main": names.index(pr["main"]) + 1, "trad": False, "obs": obs})
                metas.append(("decl-mutant", notes, {n: flatprog.render_flat(fs[n]) for n in names}))
                rep.feature("decl-mutant")
        # (b) text-level mutants and token soup: outcome typing
        sources = []
        for path in sorted(glob.glob(os.path.join(common.REPO, "**", "*.bitproto"), recursive=True)):
            try:
                sources.append((os.path.basename(path), open(path).read(), os.path.dirname(path)))
            except Exception:
                pass
        for k in range(nprog):
            pr, _ = gen.rand_case(seed, 140000 + k, max_bits=300)
            d0 = scratch.sub()
            main_path, paths = render.write_program(pr, d0)
            sources.append(("urand%d" % k, open(main_path).read(), d0))
        # constant arithmetic on numbers far beyond 64 bits (products of products, long literals): every operator's
        # action runs on them; out of the specification's numeric model, so only the outcome typing is decided
        big = "proto big\n\nconst WORD = 0xFFFFFFFFFFFFFFFF\nconst W4 = WORD * WORD * WORD * WORD\n" \
              "const W20 = W4 * W4 * W4 * W4 * W4\nconst BACK = W20 / WORD\nconst DIFF = W20 - W4 * WORD\n" \
              "const SUM = W20 + W20\nconst SMALL = WORD / W20\nconst LIT = %s / 3\nconst LIT2 = %s * 2 - 1\n\n" \
              "message Top {\n    bool[WORD / WORD] a = 1\n}\n" % ("9" * 400, "7" * 1200)
        sources.append(("bigconst", big, scratch.sub()))
        sources.append(("bigconst2", big.replace(" / ", "/").replace(" * ", "*"), scratch.sub()))
        empty = {"files": [{"name": "x", "decls": []}], "main": 1, "trad": False}
        for si, (name, text, srcdir) in enumerate(sources):
            rng = random.Random("c09t/%d/%s" % (seed, name))
            for mi, t in enumerate(([text] if name.startswith("bigconst") else []) + text_mutants(text, rng, ntext)):
                d = scratch.sub()
                # imports of the original keep working: mutants live next to copies of the siblings
                for sib in glob.glob(os.path.join(srcdir, "*.bitproto")):
                    try:
                        os.symlink(sib, os.path.join(d, os.path.basename(sib)))
                    except OSError:
                        pass
                mp = os.path.join(d, "mutant_zz.bitproto")
                with open(mp, "w", encoding="utf8", errors="replace") as f:
                    f.write(t)
                proto, outcome = P.observe_parse(mp)
                obs = [dict(outcome, ev="OutcomeType")]
                if proto is not None:
                    obs += render_events(mp, d)
                traces.append(dict(empty, id="c09-text-%d-%d" % (si, mi), obs=obs))
                metas.append(("text-mutant", name, {"mutant": t}))
                rep.feature("text-mutant:" + outcome["outcome"])
        rng = random.Random("c09s/%d" % seed)
        for k in range(nsoup):
            d = scratch.sub()
            mp = os.path.join(d, "soup.bitproto")
            t = soup(rng)
            with open(mp, "w", encoding="utf8", errors="replace") as f:
                f.write(t)
            proto, outcome = P.observe_parse(mp)
            obs = [dict(outcome, ev="OutcomeType")]
            if proto is not None:
                obs += render_events(mp, d)
            traces.append(dict(empty, id="c09-soup-%d" % k, obs=obs))
            metas.append(("token-soup", "", {"text": t}))
            rep.feature("token-soup:" + outcome["outcome"])
        # the command line on a sample of the mutants: main() must turn every outcome into a diagnostic and an
        # exit status, never a traceback
        clijobs, cliidx = [], []
        for ti, (tr, meta) in enumerate(zip(traces, metas)):
            if meta[0] in ("text-mutant", "token-soup") and ti % (6 if tier == "quick" else 10) == 0:
                mdir = None
                # the mutant file of this trace lives in the scratch directory numbered like the trace
                # (re-derive its path from the texts we kept)
                text = list(meta[2].values())[0]
                d = scratch.sub()
                mp = os.path.join(d, "cli_mutant.bitproto")
                with open(mp, "w", encoding="utf8", errors="replace") as f:
                    f.write(text)
                out = os.path.join(d, "out")
                os.makedirs(out)
                clijobs.append((["py", mp, out], d))
                cliidx.append(ti)
        for ti, (rc, so, se) in zip(cliidx, comptrace.run_cli_many(clijobs)):
            traces[ti]["obs"].append({"ev": "CliTotal", "exit": rc,
                                      "traceback": "Traceback (most recent call last)" in se,
                                      "what": (se.strip().splitlines() or [""])[-1][:120]})
            rep.feature("cli-on-mutant")
        # (c) every accepted U_rand schema renders in every language
        for k in range(nprog):
            pr, _ = gen.rand_case(seed, 150000 + k, p_empty_msg=0.15)
            d = scratch.sub()
            tr, proto, main_path = comptrace.make_trace("c09-render-%d-%d" % (seed, k), pr, d, want=())
            if proto is not None:
                tr["obs"] += render_events(main_path, d)
            traces.append(tr)
            metas.append(("render", "", {n: render.render_file(ds) for n, ds in pr["files"].items()}))
            rep.feature("render-valid")
        # (d) multi-file programs: every catalogue violation (cyclic imports whose closing path is spelled
        # differently, duplicate imports, names leaking between files ...) ends in a parser error, and import
        # paths spelled with ./ still resolve
        from .. import inject
        rules = [r_ for r_ in inject.CATALOGUE if r_ != "extensible-in-traditional"]
        for k in range(nprog):
            rng = random.Random("c09d/%d/%d" % (seed, k))
            base, _ = gen.rand_case(seed, 155000 + k, max_bits=rng.choice([60, 300]))
            rule = ("cyclic-import", rules[k % len(rules)], "valid-spelled-import")[k % 3]
            if rule == "valid-spelled-import":
                pr, note = base, "imports spelled with ./"
                for ds in pr["files"].values():
                    for d_ in ds:
                        if d_["d"] == "import":
                            d_["spell"] = rng.choice(["./", "././"])
            else:
                got = inject.inject(base, rule, rng)
                if got is None:
                    continue
                pr, note = got
            d = scratch.sub()
            main_path, paths = render.write_program(pr, d)
            proto, outcome = P.observe_parse(main_path)
            tr = P.spec_program(pr)
            tr["id"] = "c09-files-%d-%d-%s" % (seed, k, rule)
            tr["obs"] = [dict(outcome, ev="OutcomeAcc"), {"ev": "Terminates"}]
            if proto is not None:
                tr["obs"] += render_events(main_path, d)
            traces.append(tr)
            metas.append(("multi-file", "%s: %s" % (rule, note), {n: render.render_file(ds) for n, ds in pr["files"].items()}))
            rep.feature("multi-file:" + rule)
        verdicts = []
        B = 5000
        for i in range(0, len(traces), B):
            v, r = comptrace.validate(traces[i:i + B])
            verdicts += v
            rep.add_tlc(r, "trace-validation batch %d" % (i // B))
    rep.cov["traces_validated_against_impl"] = len(traces)
    for tr, (kind, note, texts), v in zip(traces, metas, verdicts):
        rep.count("evaluations")
        t = "\n".join(texts.values())
        rep.distinct(hash(t), len(t.split()) >= 3)
        if kind == "decl-mutant":
            rep.feature("decl-mutant spec:" + v["status"] + (":" + v["kind"] if v["kind"] else ""))
        if v["ok"]:
            if kind != "render":
                rep.sample({"kind": kind, "note": note, "texts": {k: x[:600] for k, x in texts.items()},
                            "observed": tr["obs"][0]}, limit=5)
            continue
        clause = v["why"].split(":", 1)[-1]
        if clause.startswith("skip"):
            rep.count("skipped:" + clause.split(":")[1])
            continue
        if clause.startswith("machinery"):
            raise common.MachineryError("trace %s: %s" % (tr["id"], v["why"]))
        idx = int(v["why"].split(":")[0]) - 1
        e = tr["obs"][idx]
        case = {"id": tr["id"], "kind": kind, "note": note, "texts": texts, "event": e, "seed": seed,
                "spec_verdict": v["status"] + ":" + v["kind"]}
        rep.decide(case, "%s: %s" % (kind, v["why"]), sig(e.get("what", "")))
    rep.cov["rule"] = ("(a) declaration-level mutants (drop/duplicate/swap/move declarations and scope brackets, also "
                       "across files) of random valid programs -- the Compiler machine gives the exact acceptance "
                       "verdict; (b) character/token/line mutations and truncations of the repository's own .bitproto "
                       "files and of random programs, and random token soup over the lexer's vocabulary incl. boundary "
                       "widths, illegal escapes, 4400-digit literals -- outcome typing; (c) every accepted input is "
                       "rendered for c, go, py and c -O; distinct_nontrivial counts distinct input texts of >= 3 tokens")
    return rep.finish()
