"""C04 -- optimization mode (-O) changes how, never what, is encoded (C and Go)."""
import json
import re
import os
import random

from .. import cdrive, common, drive, gen, opparse, render, tlc
from ..report import Report
from . import cwire, designlevel, pywire, ufull


def op_events(pr, cdir, godir, endian):
    """OpBody events for every message of the main file: C (each preprocessor branch) and Go."""
    events = []
    ctext = open(os.path.join(cdir, pr["main"] + "_bp.c")).read()
    gtext = open(os.path.join(godir, pr["main"] + "_bp.go")).read() if godir else None
    for f, path, m in gen.all_messages(pr):
        if f != pr["main"]:
            continue
        cname = "".join(path)
        t = gen.export_type(m)
        bodies = opparse.c_bodies(ctext, cname)
        if not bodies:
            raise opparse.ParseError("no Encode/Decode body for %s" % cname)
        for (kind, branch), lines in bodies.items():
            if branch == "only":
                branch = "le" if endian == "little" else "be"
            st = opparse.parse_body(lines, m, "c")
            events.append({"ev": "OpBody", "t": t, "kind": kind, "mode": "c", "branch": branch, "msg": cname,
                           # C04 speaks of decoding "into a zeroed target" for every branch; the big-endian branch's own
                           # memset is then a no-op and is not demanded
                           "endian": endian, "zeroed": True,
                           "uses_byte_view": '"fbyte"' in json.dumps(st), "stmts": st})
        if gtext is not None:
            gb = opparse.go_bodies(gtext, cname)
            if not gb:
                raise opparse.ParseError("no Go Encode/Decode body for %s" % cname)
            for kind, lines in gb.items():
                st = opparse.parse_body(lines, m, "go")
                ev = {"ev": "OpBody", "t": t, "kind": kind, "mode": "go", "branch": "go", "msg": cname,
                      "endian": "-", "zeroed": True, "uses_byte_view": False, "stmts": st}
                if kind == "enc":
                    # where the encoder's buffer s comes from
                    ev["buffer"] = go_buffer_origin(lines, gtext)
                events.append(ev)
    return events


def go_buffer_origin(lines, gtext):
    """Where a Go optimization-mode encoder's buffer s comes from: {"kind": "fresh", "n": N} for a zeroed buffer
    made by this call (make([]byte, N), make([]byte, N, N), var s [N]byte), {"kind": "shared"} when s is taken from
    a package-level variable; any other form cannot be judged (machinery failure, never a verdict)."""
    decl = [l.strip() for l in lines if re.match(r"\s*(var\s+s\b|s\s*:?=)", l)]
    if len(decl) != 1:
        raise common.MachineryError("Go encoder: %d declarations of s: %s" % (len(decl), decl[:3]))
    d = decl[0]
    for pat in (r"s := make\(\[\]byte, (\d+)\)", r"s := make\(\[\]byte, (\d+), \1\)", r"var s = make\(\[\]byte, (\d+)\)",
                r"var s \[(\d+)\]byte", r"s := \[(\d+)\]byte\{\}"):
        mk = re.fullmatch(pat, d)
        if mk:
            return {"kind": "fresh", "n": int(mk.group(1))}
    pkg = set(re.findall(r"^var\s+(\w+)", gtext, re.M)) | set(re.findall(r"^\s+(\w+)\s+\[\d+\]byte\s*$", gtext, re.M))
    used = set(re.findall(r"\b([A-Za-z_]\w*)\b", d.split("=", 1)[-1]))
    if used & pkg:
        return {"kind": "shared", "n": 0, "text": d[:120]}
    raise common.MachineryError("Go encoder: cannot tell where the buffer comes from: %s" % d[:160])


def main(tier, replay=None):
    rep = Report("C04", tier)
    seed = common.seed()
    rep.assumptions += [
        "schemas without extensible types; decode into a zeroed target (the big-endian C branch zeroes it itself: "
        "that branch is evaluated from an un-zeroed target so a missing memset is seen)",
        "symbolic part: every statement of every generated Encode/Decode body (C little-endian branch, C big-endian "
        "branch, Go) is parsed into an expression tree and evaluated by TLC on bit-provenance tags (Expr.tla), with "
        "C's integer promotions resp. Go's fixed operand widths; a statement the parser cannot read is a machinery "
        "failure (exit 2), never a verdict",
        "Go is never executed (no toolchain); C is also executed for each --endian setting and preprocessor branch",
    ]
    # design level: the plan (i, j, c) -> chunks tiles every field: same chunk arithmetic as the cursor machine
    designlevel.codec_design(rep, "chunk tiling, wide leaves", depth=1, caps=(1, 2), leafset="wide", evo=0,
                             modes=("enc",), invariants=("InBounds", "EncRefines", "ChunkShape"), properties=())
    n_sym, n_run = (60, 30) if tier == "quick" else (1500, 400)
    worker = cdrive.Worker()
    try:
        with common.Scratch("c04") as scratch:
            # ---- symbolic: all inputs at once ----
            traces, metas = [], []
            for k in range(n_sym + 1):
                rng = random.Random("c04/%d/%d" % (seed, k))
                if k == n_sym:
                    pr = gen.same_names_program()   # the same bare name for different definitions in different scopes
                else:
                    pr, _ = gen.rand_case(seed, 220000 + k, p_ext=0.0, max_bits=rng.choice([60, 300, 900]))
                d = scratch.sub()
                main_path, paths = render.write_program(pr, d)
                events = []
                for endian in (("both",) if k % 3 else ("both", "little", "big")):
                    cd = os.path.join(d, "c_" + endian)
                    os.makedirs(cd)
                    drive.compile_program(paths, pr["order"], "c", cd, optimize=True, endian=endian)
                    gd = None
                    if endian == "both":
                        gd = os.path.join(d, "go")
                        os.makedirs(gd)
                        drive.compile_program(paths, pr["order"], "go", gd, optimize=True)
                    try:
                        events += op_events(pr, cd, gd, endian)
                    except opparse.ParseError as e:
                        raise common.MachineryError("cannot parse a generated statement: %s" % e)
                traces.append({"id": "c04-sym-%d" % k, "t": {"k": "bool"}, "events": events})
                metas.append(pr)
                for f in gen.features(pr["rtype"]):
                    rep.feature(f)
            # messages of 1 kB and more (Go): where the encoder's buffer comes from; the bodies themselves are the
            # same statements as for small messages and are not evaluated at this size
            for nbytes in ((1100,) if tier == "quick" else (1024, 1025, 1100, 4000, 8190)):
                te = {"k": "array", "elem": {"k": "byte"}, "cap": gen.lit(nbytes - 1), "ext": False}
                decl = {"d": "message", "name": "Top", "ext": False,
                        "body": [{"d": "field", "name": "payload", "num": 1, "t": te},
                                 {"d": "field", "name": "x", "num": 2, "t": {"k": "uint", "n": 3}}]}
                pr = {"files": {"main": [{"d": "proto", "name": "main"}, decl]}, "order": ["main"], "main": "main",
                      "top": "Top", "rtype": {"k": "msg", "name": "Top", "ext": False, "_decl": decl, "fields": [
                          {"num": 1, "name": "payload", "t": {"k": "array", "ext": False, "cap": nbytes - 1,
                                                              "elem": {"k": "byte"}, "_texpr": te}},
                          {"num": 2, "name": "x", "t": {"k": "uint", "n": 3}}]}}
                d = scratch.sub()
                main_path, paths = render.write_program(pr, d)
                drive.compile_program(paths, pr["order"], "go", d, optimize=True)
                gb = opparse.go_bodies(open(os.path.join(d, "main_bp.go")).read(), "Top")
                if "enc" not in gb:
                    raise common.MachineryError("no Go Encode body for the %d-byte message" % nbytes)
                buf = go_buffer_origin(gb["enc"], open(os.path.join(d, "main_bp.go")).read())
                traces.append({"id": "c04-gobuf-%d" % nbytes, "t": {"k": "bool"},
                               "events": [{"ev": "GoEncBuffer", "t": gen.export_type(pr["rtype"]), "msg": "Top", "buffer": buf,
                                           "stmts": [], "mode": "go", "branch": "go", "kind": "enc-buffer", "endian": "-"}]})
                metas.append(pr)
                rep.feature("go-encoder-buffer-of-large-message")
            # every leaf type at every bit offset (U_full), symbolically
            types = gen.ufull_leaf_types()
            if tier == "quick":
                types = [T for T in types if T["k"] in ("bool", "byte") or T["k"] == "int" and T["n"] % 2 == 1
                         or T["n"] in (1, 7, 8, 9, 16, 17, 31, 32, 33, 63, 64)]
            for T in types:
                pr = ufull.ufull_prog(T, cap=2)
                d = scratch.sub()
                main_path, paths = render.write_program(pr, d)
                cd, gd = os.path.join(d, "c"), os.path.join(d, "go")
                os.makedirs(cd)
                os.makedirs(gd)
                drive.compile_program(paths, pr["order"], "c", cd, optimize=True)
                drive.compile_program(paths, pr["order"], "go", gd, optimize=True)
                pr["rtype"]["_decl"] = [x for x in pr["files"]["main"] if x["d"] == "message"][0]
                try:
                    events = op_events(pr, cd, gd, "both")
                except opparse.ParseError as e:
                    raise common.MachineryError("cannot parse a generated statement: %s" % e)
                traces.append({"id": "c04-ufull-%s%s" % (T["k"], T.get("n", "")), "t": {"k": "bool"}, "events": events})
                metas.append(pr)
                rep.feature("ufull-type")
            verdicts, r = tlc.validate_traces("WireTrace", "WireTrace.cfg", traces)
            rep.add_tlc(r, "trace-validation:symbolic evaluation of generated bodies (Expr.tla)")
            rep.cov["traces_validated_against_impl"] += len(traces)
            for tr, pr, (ok, why) in zip(traces, metas, verdicts):
                rep.count("evaluations", len(tr["events"]))
                rep.count("statements_evaluated", sum(len(e["stmts"]) for e in tr["events"]))
                for e in tr["events"]:
                    rep.feature("body:%s %s %s" % (e["mode"], e["branch"], e["kind"]))
                rep.distinct(gen.shape_key(pr["rtype"]), pywire.nontrivial(pr["rtype"]))
                if ok:
                    e = tr["events"][0]
                    rep.sample({"schema": pywire.program_text(pr), "message": e["msg"], "kind": e["kind"],
                                "branch": e["branch"], "first_statements": e["stmts"][:2]}, limit=2)
                    continue
                clause = why.split(":", 1)[-1]
                if clause.startswith("machinery"):
                    raise common.MachineryError("%s: %s" % (tr["id"], why))
                idx = int(why.split(":")[0]) - 1
                e = tr["events"][idx]
                case = {"schema": pywire.program_text(pr), "message": e["msg"], "kind": e["kind"], "mode": e["mode"],
                        "branch": e["branch"], "endian": e["endian"], "seed": seed}
                rep.decide(case, "%s %s %s of %s: %s" % (e["mode"], e["branch"], e["kind"], e["msg"], clause), [])
            # ---- execution (C): every --endian setting and preprocessor branch ----
            variants = [("both", False), ("both", True), ("big", False), ("big", True), ("little", False)]
            for endian, define_be in variants:
                builder = cdrive.CBuilder(scratch, cflags=("-O2",), defines=(("BP_BIG_ENDIAN",) if define_be else ()))
                cases = []
                for k in range(n_run + 1):
                    if k == n_run:
                        pr, rng = gen.same_names_program(), random.Random("c04sn/%d" % seed)
                    else:
                        pr, rng = gen.rand_case(seed, 230000 + k, p_ext=0.0)
                    t = pr["rtype"]
                    vals = [gen.gen_value(rng, t, "ones")] + [gen.gen_value(rng, t, "rand") for _ in range(3)]
                    cases.append(cwire.CCase("c04-run-%s-%s-%d" % (endian, "be" if define_be else "le", k), pr, vals))
                built = cwire.prepare(cases, scratch, builder, optimize=True, endian=endian)
                for c, lib in built:
                    if lib is not None:
                        cwire.drive_case(c, lib, worker, want=("enc", "dec"))
                    rep.feature("run:--endian %s%s" % (endian, " -DBP_BIG_ENDIAN" if define_be else ""))
                pywire.validate_and_decide(rep, cases, count_events=("CEncode", "CDecode"))
    finally:
        worker.close()
    rep.cov["rule"] = ("random traditional schemas; (symbolic) every Encode/Decode body of every message in C -O output "
                       "(both preprocessor branches, and --endian little / big outputs) and Go -O output, evaluated on "
                       "provenance tags = all inputs at once; (execution) C -O output built for every --endian setting "
                       "with and without -DBP_BIG_ENDIAN and run on values, decided against Wire; distinct_nontrivial "
                       "counts distinct schema shapes")
    return rep.finish()
