"""C18 -- compilation is deterministic."""
import itertools
import json
import os
import random
import subprocess
from concurrent.futures import ThreadPoolExecutor

from .. import common, gen, render, tlc
from ..report import Report
from . import designlevel

TLC_SCHEMAS = {
    "S1": "proto S1\n\nmessage A {\n    uint3 x = 1\n}\n\nmessage B {\n    uint5 y = 1\n}\n\n"
          "message Top {\n    A a = 1\n    B b = 2\n}\n",
    "S2": "proto S2\n\nmessage A {\n    uint7 x = 1\n    bool z = 2\n}\n\nmessage B {\n    uint5 y = 1\n}\n\n"
          "message Top {\n    A a = 1\n    B b = 2\n}\n",
    # S3 ends in comment lines (a commented-out definition at the bottom, nothing after it): text that belongs to
    # no definition of this file and must not reach any later compilation
    "S3": "proto S3\n\nmessage C {\n    uint3 x = 1\n}\n\nmessage Top {\n    C a = 1\n}\n"
          "// TODO enable once the receiver is ready\n// message Pong {\n//     uint8 seq = 1\n// }\n",
}

HAND = {
    # comments above the proto line, above definitions, and trailing comment lines without a final newline
    "h4": "// file header of h4\nproto h4\n\n// about Top\nmessage Top {\n    // about a\n    uint9 a = 1\n}\n"
          "// trailing note of h4\n// second trailing line\n",
    "h1": "proto h1\n\nenum color_kind : uint3 {\n    COLOR_KIND_RED = 0\n    COLOR_KIND_BLUE = 1\n}\n\n"
          "message sensor_data {\n    uint3 sensor_kind = 1\n    color_kind c = 2\n}\n\n"
          "message Top {\n    sensor_data[2] items = 1\n    int13 delta_value = 2\n}\n",
    "h2": "proto h2\n\nenum color_kind : uint5 {\n    COLOR_KIND_RED = 0\n    COLOR_KIND_GREEN = 9\n}\n\n"
          "message sensor_data {\n    bool sensor_kind = 1\n    byte[3] raw_bytes = 2\n}\n\n"
          "message Top {\n    sensor_data one = 1\n    color_kind c = 7\n}\n",
    # members declared out of value order, the zero member last; constants referencing each other
    "h3": "proto h3\n\nconst WIDTH_B = 3\nconst WIDTH_A = WIDTH_B * 2\n\nenum Mode : uint4 {\n    MODE_AUTO = 2\n"
          "    MODE_MANUAL = 7\n    MODE_OFF = 0\n    MODE_TEST = 1\n}\n\n"
          "message Top {\n    Mode m = 2\n    Mode[WIDTH_A] ms = 1\n    message Inner {\n        enum Mode : uint2 {\n"
          "            MODE_Z = 3\n            MODE_A = 0\n        }\n        Mode im = 1\n    }\n    Inner inner = 3\n}\n",
}


def run_session(jobs, env_extra, cwd):
    env = dict(os.environ)
    env.pop("PYTHONPATH", None)
    env.update(env_extra)
    p = subprocess.run([common.PY, os.path.join(common.VERIF, "bpverif", "sessiondrv.py"), common.REPO],
                       input=json.dumps(jobs), capture_output=True, text=True, env=env, cwd=cwd, timeout=3000)
    try:
        return json.loads(p.stdout.strip().splitlines()[-1])
    except Exception:
        return [{"exit": 98, "digest": "", "stderr": (p.stderr or "")[-300:]} for _ in jobs]


def main(tier, replay=None):
    rep = Report("C18", tier)
    seed = common.seed()
    rep.assumptions += [
        "a job's key is (schema files' contents, language, -O, -F set, --endian); process, PYTHONHASHSEED, working "
        "directory, relative vs absolute schema path, output directory, -q and the jobs compiled earlier in the same "
        "process are logged but are not part of the key",
        "in-process sequences call bitproto._main.main repeatedly inside one interpreter",
    ]
    for keying, must_hold in (("identity", True), ("name", False), ("name-no-lang", False)):
        r = designlevel.run_cfg("Session", open(common.SPEC + "/MC_Session_%s.cfg" % keying).read(), timeout=1800)
        tlc.machinery_check(r, "Session " + keying)
        if must_hold:
            rep.add_tlc(r, "design:Session with identity-keyed caches, schedules of length <= 3")
            if not r.ok:
                raise common.MachineryError("Session violated: %s" % r.violated)
        else:
            if r.ok:
                raise common.MachineryError("negative control %s not refuted" % keying)
            rep.cov.setdefault("negative_controls_refuted", {})[keying] = r.violated
    nrand, nsched = (8, 200) if tier == "quick" else (40, 3000)
    with common.Scratch("c18") as scratch:
        root = scratch.sub("schemas")
        schemas = {}
        for name, text in HAND.items():
            d = os.path.join(root, name)
            os.makedirs(d)
            with open(os.path.join(d, name + ".bitproto"), "w") as f:
                f.write(text)
            schemas[name] = (d, name + ".bitproto", True, ["Top"])
        # one file with four direct imports (the order of anything derived from the imports must be the source's)
        d = os.path.join(root, "h5")
        os.makedirs(d)
        for nm in ("alpha", "bravo", "charlie", "delta"):
            with open(os.path.join(d, nm + ".bitproto"), "w") as f:
                f.write("proto %s\n\nmessage %s {\n    uint%d v = 1\n}\n" % (nm, nm.capitalize(), 3 + len(nm)))
        with open(os.path.join(d, "h5.bitproto"), "w") as f:
            f.write("proto h5\n\nimport \"charlie.bitproto\"\nimport \"alpha.bitproto\"\nimport \"delta.bitproto\"\n"
                    "import \"bravo.bitproto\"\n\nmessage Top {\n    alpha.Alpha a = 1\n    bravo.Bravo b = 2\n"
                    "    charlie.Charlie c = 3\n    delta.Delta d = 4\n}\n")
        schemas["h5"] = (d, "h5.bitproto", True, ["Top"])
        for k in range(nrand):
            pr, _ = gen.rand_case(seed, 190000 + k, max_bits=300, p_ext=0.0 if k % 2 == 0 else 0.3)
            d = os.path.join(root, "r%d" % k)
            os.makedirs(d)
            render.write_program(pr, d)
            trad = not any(d_.get("ext") for ds in pr["files"].values() for d_ in _all(ds)) and \
                not any(_ext_t(d_) for ds in pr["files"].values() for d_ in _all(ds))
            schemas["r%d" % k] = (d, "main.bitproto", trad, ["Top"])
        # the three schemas of Session.tla: S1 and S2 define A and B (A differently), S3 defines C with S1.A's body
        for sid_, text in TLC_SCHEMAS.items():
            d = os.path.join(root, sid_)
            os.makedirs(d)
            with open(os.path.join(d, sid_ + ".bitproto"), "w") as f:
                f.write(text)
            schemas[sid_] = (d, sid_ + ".bitproto", True, ["Top"])
        jobs = []
        for sid, (d, fn, trad, tops) in schemas.items():
            for lang in ("c", "go", "py"):
                jobs.append({"sid": sid, "lang": lang, "O": False, "F": None, "endian": "both"})
            if trad:
                jobs.append({"sid": sid, "lang": "c", "O": True, "F": None, "endian": "both"})
                jobs.append({"sid": sid, "lang": "c", "O": True, "F": tops, "endian": "big"})
                jobs.append({"sid": sid, "lang": "go", "O": True, "F": None, "endian": "both"})

        def key(j):
            return "%s|%s|%s|%s|%s" % (j["sid"], j["lang"], j["O"], ",".join(j["F"]) if j["F"] is not None else "-", j["endian"])
        rng = random.Random("c18/%d" % seed)
        schedules = [[j] for j in jobs]                         # fresh-process baseline first
        pairs = list(itertools.permutations(range(len(jobs)), 2))
        rng.shuffle(pairs)
        for a, b in pairs[:nsched // 2]:
            schedules.append([jobs[a], jobs[b]])
        for _ in range(nsched // 2):
            schedules.append([rng.choice(jobs) for _ in range(rng.randint(3, 5))])
        # direction spec -> code: every behaviour of Session.tla (three steps over compile jobs and restarts),
        # written by TLC; a restart ends a process, so a behaviour is replayed as its process segments
        rd = designlevel.run_cfg("MC_SessionDump", open(common.SPEC + "/MC_SessionDump.cfg").read(), timeout=1800, workers=1)
        tlc.machinery_check(rd, "MC_SessionDump")
        if not rd.ok:
            raise common.MachineryError("MC_SessionDump: %s" % rd.violated)
        rep.add_tlc(rd, "spec->code:every behaviour of Session (3 steps), written by TLC and replayed into compiler processes")
        behaviours = [json.loads(x[2:]) for x in rd.lines if x.startswith("H|")]
        if not behaviours:
            raise common.MachineryError("MC_SessionDump printed no behaviour")
        segs = set()
        for h in behaviours:
            cur = []
            for st in h + [{"a": "restart"}]:
                if st["a"] == "restart":
                    if cur:
                        segs.add(tuple(cur))
                    cur = []
                else:
                    cur.append((st["schema"], st["lang"]))
        tlc_first = len(schedules)
        for seg in sorted(segs):
            schedules.append([{"sid": sid_, "lang": lang_, "O": False, "F": None, "endian": "both"} for sid_, lang_ in seg])
        rep.cov["session_behaviours_replayed"] = {"behaviours": len(behaviours), "distinct_process_segments": len(segs)}
        plans = []
        for si, sched in enumerate(schedules):
            hs = "0" if si < len(jobs) else rng.choice(["0", "1", "424242", "random", "4294967295"])
            cwd_kind = rng.choice(["scratch", "schema", "root"])
            concrete = []
            cwd = scratch.dir if cwd_kind == "scratch" else ("/" if cwd_kind == "root" else schemas[sched[0]["sid"]][0])
            for ji, j in enumerate(sched):
                d, fn, trad, tops = schemas[j["sid"]]
                path = os.path.join(d, fn)
                if rng.random() < 0.5:
                    path = os.path.relpath(path, cwd)
                out = os.path.join(scratch.dir, "out", "s%d_j%d" % (si, ji))
                if rng.random() < 0.3:
                    out = os.path.relpath(out, cwd)
                concrete.append({"schema": path, "lang": j["lang"], "outdir": out, "O": j["O"], "F": j["F"],
                                 "endian": j["endian"], "quiet": rng.random() < 0.5})
            plans.append((sched, concrete, {"PYTHONHASHSEED": hs}, cwd, cwd_kind))

        def go(p):
            return run_session(p[1], p[2], p[3])
        with ThreadPoolExecutor(max_workers=16) as ex:
            results = list(ex.map(go, plans))
        events = []
        for (sched, concrete, env, cwd, cwd_kind), res in zip(plans, results):
            events.append({"ev": "Restart", "hashseed": env["PYTHONHASHSEED"], "cwd": cwd_kind})
            for pos, (j, c, r) in enumerate(zip(sched, concrete, res)):
                events.append({"ev": "Compile", "key": key(j), "digest": r["digest"], "exit": r["exit"],
                               "position_in_process": pos, "quiet": c["quiet"],
                               "relative_path": not os.path.isabs(c["schema"]),
                               "earlier": [key(x) for x in sched[:pos]], "stderr": r["stderr"][:100]})
                rep.count("evaluations")
                rep.feature("position:%d" % min(pos, 3))
                rep.feature("hashseed:" + env["PYTHONHASHSEED"])
                rep.feature("cwd:" + cwd_kind)
        verdicts, r = tlc.validate_traces("SessionTrace", "SessionTrace.cfg",
                                          [{"id": "c18-%d" % seed, "events": events}], workers=1)
    rep.add_tlc(r, "trace-validation:SessionTrace over %d observations" % len(events))
    rep.cov["traces_validated_against_impl"] = len(schedules)
    for s in schedules:
        rep.distinct(tuple(key(j) for j in s), len(s) >= 2)
    rep.sample({"schedule": [key(j) for j in schedules[len(jobs) + 1]], "events": events[2 * len(jobs) + 1:2 * len(jobs) + 5]})
    ok, why = verdicts[0]
    if not ok:
        if why.split(":", 1)[-1].startswith("machinery"):
            raise common.MachineryError(why)
        idx = int(why.split(":")[0]) - 1
        e = events[idx]
        first = [x for x in events if x.get("key") == e.get("key")][0]
        rep.decide({"event": e, "first_observation_of_key": first, "seed": seed}, why, [])
    rep.cov["rule"] = ("jobs = {hand-written and random schemas that share definition names} x {c, go, py, c -O, "
                       "c -O -F --endian big, go -O}; every job alone in a fresh process (baseline), ordered pairs and "
                       "random sequences of 3..5 jobs inside one interpreter, each process with its own PYTHONHASHSEED, "
                       "working directory, relative/absolute schema and output paths, -q on/off; TLC accepts an "
                       "observation iff its digest equals the first one seen for the key; distinct_nontrivial counts "
                       "distinct schedules of >= 2 jobs")
    return rep.finish()


def _all(decls):
    for d in decls:
        yield d
        if d["d"] in ("message", "enum"):
            yield from _all(d["body"])


def _ext_t(d):
    return d["d"] in ("field", "alias") and d["t"]["k"] == "array" and d["t"]["ext"]
