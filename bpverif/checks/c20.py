"""C20 -- lint is advisory and diagnostics point at the right line."""
import copy
import hashlib
import io
import os
import random
import re
import sys

from .. import common, drive, gen, inject, prog as P, render
from ..report import Report
from . import comptrace

NAME_WORD = {"message": 2, "enum": 2, "alias": 2, "const": 2, "option": 2, "field": 2, "efield": 1}


def all_decls(decls):
    for d in decls:
        yield d
        if d["d"] in ("message", "enum"):
            yield from all_decls(d["body"])


def rename_refs(pr, old, new):
    # by NAME: callers generate their programs with globally unique definition names (reuse_names=0)
    def fix_path(p):
        return [new if x == old else x for x in p]

    def fix_t(t):
        if t["k"] == "ref":
            t["path"] = fix_path(t["path"])
        elif t["k"] == "array":
            fix_t(t["elem"])
            if t["cap"]["e"] == "ref":
                t["cap"]["path"] = fix_path(t["cap"]["path"])

    def fix_v(v):
        if v["e"] == "ref":
            v["path"] = fix_path(v["path"])
        elif v["e"] == "toks":
            for tk in v["toks"]:
                if tk[0] == "ref":
                    tk[1] = fix_path(tk[1])
    for ds in pr["files"].values():
        for d in all_decls(ds):
            if d["d"] in ("field", "alias"):
                fix_t(d["t"])
            if d["d"] in ("const", "option"):
                fix_v(d["v"])


def perturb(pr, rng):
    """Tags every generator-named definition 'ok' and renames some to clearly violating names."""
    pr = copy.deepcopy(pr)
    pr.pop("rtype", None)
    k = 0
    # the same violating field / member name is reused in different scopes (legal: names are per scope)
    pool_used = {}
    owner = {}
    for fname, ds in pr["files"].items():
        for d in all_decls(ds):
            if d["d"] in ("message", "enum"):
                for x in d["body"]:
                    owner[id(x)] = id(d)
    for fname, ds in pr["files"].items():
        for d in list(all_decls(ds)):
            kind = d["d"]
            if kind not in ("message", "enum", "alias", "const", "field", "efield"):
                continue
            d["style"] = "ok"
            if rng.random() < 0.25 and not (kind == "message" and d["name"] == pr.get("top")):
                k += 1
                old = d["name"]
                if kind in ("message", "enum", "alias"):
                    new = "bad_%s_%s" % (old.lower(), gen.letters(k))
                elif kind in ("field", "efield"):
                    used = pool_used.setdefault(owner.get(id(d)), set())
                    pool = ["userID", "badField", "someValueX"] if kind == "field" else ["bad_member", "lower_one", "mixedCase"]
                    free = [x for x in pool if x not in used]
                    new = free[0] if free else (("badField%s" if kind == "field" else "bad_member_%s") % gen.letters(k).capitalize())
                    used.add(new)
                elif kind == "const":
                    new = "bad_%s" % old.lower()
                else:
                    new = "bad_member_%s" % gen.letters(k)
                d["name"] = new
                d["style"] = "bad"
                if kind in ("message", "enum", "alias", "const"):
                    rename_refs(pr, old, new)
            elif rng.random() < 0.1 and kind == "field":
                # names the style guide does not clearly classify are never judged
                d["name"] = rng.choice(["x1", "v2x", "a", "ID", "hTTP"]) + gen.letters(rng.randrange(400))
                d["style"] = "unclear"
    # layout: blank lines, comments, a definition on the very first line
    for fname, ds in pr["files"].items():
        for d in all_decls(ds):
            if rng.random() < 0.2:
                d["blank_before"] = rng.randint(1, 2)
            if rng.random() < 0.2:
                d["comment"] = ["note %d" % rng.randrange(100)] * rng.randint(1, 2)
        if rng.random() < 0.3:
            first = {"d": "const", "name": "ZZ_FIRST", "v": gen.lit(1), "style": "ok"}
            ds.insert(0, first)
    return pr


def add_escaped_strings(pr, rng):
    """String constants whose literals contain escapes (\\n, \\t, \\\\ ...) near the top of every file: what a
    token contains must not move the line numbers of what follows."""
    for fname, ds in pr["files"].items():
        at = max([i for i, d in enumerate(ds) if d["d"] in ("proto", "import")] + [0]) + 1
        for j in range(rng.randint(1, 2)):
            src = rng.choice(["line one\\nline two", "a\\n\\nb\\n", "tab\\there", "q\\\"q\\n", "back\\\\slash n"])
            val = src.replace("\\n", "\n").replace("\\t", "\t").replace('\\"', '"').replace("\\\\", "\\")
            ds.insert(at, {"d": "const", "name": "ZZ_TEXT_%s%d" % (fname.upper(), j), "style": "ok",
                           "v": {"e": "str", "src": src, "val": val}})


def observe_positions(proto, texts):
    """Pos events for every definition, RefPos for references that start their line."""
    from bitproto._ast import Alias, Constant, Enum, EnumField, Message, MessageField, Option, Proto
    evs = []
    for p in P.all_protos(proto):
        f = P.file_key(p.filepath)
        lines = texts.get(f, "").split("\n")

        def walk(scope, path):
            for name, m in scope.members.items():
                if isinstance(m, Proto):
                    continue
                kind = ("message" if isinstance(m, Message) else "enum" if isinstance(m, Enum) else
                        "alias" if isinstance(m, Alias) else "const" if isinstance(m, Constant) else
                        "field" if isinstance(m, MessageField) else "efield" if isinstance(m, EnumField) else
                        "option" if isinstance(m, Option) else None)
                if kind is None:
                    continue
                word = NAME_WORD[kind]
                if kind == "alias" and 1 <= int(m.lineno) <= len(lines) and \
                        lines[int(m.lineno) - 1].lstrip(" ").startswith("typedef "):
                    word = 3        # the deprecated spelling: typedef <type> <Name>
                evs.append({"ev": "Pos", "file": f, "path": path + [name], "line": int(m.lineno),
                            "col": int(m.token_col_start), "word": word,
                            "indent": int(getattr(m, "indent", -99))})
                if isinstance(m, (Message, Enum)):
                    walk(m, path + [name])
        walk(p, [])
        for r in p.references:
            ln = int(r.lineno)
            if 1 <= ln <= len(lines):
                body = lines[ln - 1].lstrip(" ")
                if body.startswith(r.token) and body[len(r.token):len(r.token) + 1] in (" ", "["):
                    evs.append({"ev": "RefPos", "file": f, "line": ln, "col": int(r.token_col_start), "word": 1})
    return evs


def observe_comments(proto):
    from bitproto._ast import Proto, Scope
    evs = []
    for p in P.all_protos(proto):
        f = P.file_key(p.filepath)

        def walk(scope, path):
            for name, m in scope.members.items():
                if isinstance(m, Proto):
                    continue
                cb = getattr(m, "comment_block", None)
                if cb is not None:
                    evs.append({"ev": "Comments", "file": f, "path": path + [name], "n": len(cb)})
                if isinstance(m, Scope):
                    walk(m, path + [name])
        walk(p, [])
    return evs


def observe_lint(proto):
    """Runs the real linter in-process and collects the warning objects it reports."""
    common.use_repo()
    import bitproto.linter as L
    got = []
    orig = L.warning
    L.warning = lambda w=None: got.append(w) if w is not None else None
    try:
        n = L.lint(proto)
    finally:
        L.warning = orig
    lst = [[P.file_key(w.filepath), type(w).__name__, int(w.lineno)] for w in got]
    return {"ev": "Warnings", "list": lst, "count": int(n)}


def digest_dir(d):
    h = hashlib.sha256()
    for fn in sorted(os.listdir(d)):
        with open(os.path.join(d, fn), "rb") as f:
            h.update(fn.encode() + b"\0" + f.read() + b"\0")
    return h.hexdigest()


def main(tier, replay=None):
    rep = Report("C20", tier)
    seed = common.seed()
    rep.assumptions += [
        "names are tagged by the generator: 'ok' (PascalCase / snake_case / UPPER_CASE as the style guide asks), "
        "'bad' (clearly violating: bad_name for Pascal kinds, badFieldX for fields, lower case for constants and enum "
        "members) or 'unclear' (digits, acronyms, single letters) -- only the first two produce expectations",
        "indentation: files laid out with 4 spaces per level must produce no IndentWarning; other indentations are "
        "not judged",
        "error file/line: a sample of single-violation schemas (catalogue rules of C08) is decided here through the "
        "parser error and through the diagnostic line the command line prints; C08 covers the catalogue in breadth",
    ]
    n = 150 if tier == "quick" else 3000
    traces, progs = [], []
    clijobs, climeta = [], []
    with common.Scratch("c20") as scratch:
        for k in range(n):
            rng = random.Random("c20/%d/%d" % (seed, k))
            base, _ = gen.rand_case(seed, 160000 + k, max_bits=rng.choice([60, 300, 1000]), p_enum_nonzero_first=0.3, reuse_names=0)
            if k % 3 == 1:
                base = gen.wrap_diamond(base, rng)      # two sibling imports in one file, one file reached twice
            pr = perturb(base, rng)
            if k % 3 == 0:
                add_escaped_strings(pr, rng)
            if k % 4 == 2:
                # the deprecated spelling of aliases (a syntax warning on stderr, same meaning, other word order)
                for ds_ in pr["files"].values():
                    for d_ in ds_:
                        if d_["d"] == "alias" and rng.random() < 0.7:
                            d_["typedef"] = True
            lay = render.Layout(indent=4, semi=(rng.random() < 0.2))
            if rng.random() < 0.1:
                lay = render.Layout(indent=rng.choice([2, 3, 8]))
                pr["_indent_ok"] = False
            d = scratch.sub()
            main_path, paths = render.write_program(pr, d, lay)
            proto, outcome = P.observe_parse(main_path)
            obs = [outcome]
            if proto is not None:
                obs += observe_positions(proto, pr["_texts"])
                obs.append(observe_lint(proto))
            tr = P.spec_program(pr)
            tr["id"] = "c20-%d-%d" % (seed, k)
            tr["obs"] = obs
            tr["_comments"] = observe_comments(proto) if proto is not None else []
            traces.append(tr)
            progs.append(pr)
            # command line: check-only exit status; output with and without -q
            o1, o2 = os.path.join(d, "o_lint"), os.path.join(d, "o_quiet")
            os.makedirs(o1)
            os.makedirs(o2)
            lang = ["c", "py", "go"][k % 3]
            clijobs += [(["-c", main_path], d), ([lang, main_path, o1], d), ([lang, main_path, o2, "-q"], d)]
            climeta.append((len(traces) - 1, o1, o2))
        # single-violation invalid schemas at arbitrary line positions (blank lines, comments, imported files):
        # the parser error and the diagnostic the command line prints cite the offending file and line
        nerrp = 60 if tier == "quick" else 1200
        errjobs, errmeta = [], []
        rules = [r_ for r_ in inject.CATALOGUE if r_ != "extensible-in-traditional"]
        for k in range(nerrp):
            rng = random.Random("c20e/%d/%d" % (seed, k))
            base, _ = gen.rand_case(seed, 165000 + k, max_bits=rng.choice([60, 300]), consts=True, reuse_names=0)
            if k % 2 == 1:
                base = gen.wrap_diamond(base, rng)
            base = perturb(base, rng)
            if k % 2 == 0:
                add_escaped_strings(base, rng)
            got = inject.inject(base, rules[(k + seed) % len(rules)], rng)
            if got is None:
                got = inject.inject(base, rng.choice(["width", "dup-name", "undefined-type", "capacity"]), rng)
            if got is None:
                continue
            pr = got[0]
            d = scratch.sub()
            lay = render.Layout(indent=4, semi=(rng.random() < 0.2))
            main_path, paths = render.write_program(pr, d, lay)
            proto, outcome = P.observe_parse(main_path)
            tr = P.spec_program(pr)
            tr["id"] = "c20-err-%d-%d-%s" % (seed, k, got[1])
            tr["obs"] = [outcome]
            traces.append(tr)
            progs.append(pr)
            errjobs.append((["-c", main_path], d))
            errmeta.append(len(traces) - 1)
            rep.feature("error-citation:" + rules[(k + seed) % len(rules)])
        for ti, (rc, so, se) in zip(errmeta, comptrace.run_cli_many(errjobs)):
            m_ = re.search(r"error:\s+(\S*):L(\d+)\b", se)
            traces[ti]["obs"].append({"ev": "Diag", "exit": rc, "nerr": se.count("error:"),
                                      "traceback": "Traceback (most recent call last)" in se,
                                      "cited": m_ is not None, "file": P.file_key(m_.group(1)) if m_ else "",
                                      "line": int(m_.group(2)) if m_ else 0, "text": se.strip()[:200]})
        res = comptrace.run_cli_many(clijobs)
        for i, (ti, o1, o2) in enumerate(climeta):
            (rc_c, _, se_c), (rc1, _, se1), (rc2, _, se2) = res[3 * i:3 * i + 3]
            traces[ti]["obs"].append({"ev": "CheckOnly", "exit": rc_c,
                                      # lint warnings only: the parser's "syntax warning: keyword typedef deprecated" is not one
                                      "nwarn": se_c.count("warning:") - se_c.count("syntax warning:"),
                                      "nerr": se_c.count("error:"),
                                      "traceback": "Traceback (most recent call last)" in se_c})
            traces[ti]["obs"].append({"ev": "LintNoEffect", "exit_lint": rc1, "exit_quiet": rc2,
                                      "same_outputs": digest_dir(o1) == digest_dir(o2)})
        verdicts, r = comptrace.validate(traces)
        # beyond the listed properties (informational): comment attachment, decided by TextPos!CommentsAbove
        xtraces = []
        for tr, pr in zip(traces, progs):
            evs = [e for e in tr["obs"] if e["ev"] == "Outcome"] + tr.get("_comments", [])
            if len(evs) > 1:
                x = dict(tr)
                x["obs"] = evs
                x.pop("_comments", None)
                xtraces.append(x)
        for tr in traces:
            tr.pop("_comments", None)
        if xtraces:
            xv, xr = comptrace.validate(xtraces)
            rep.add_tlc(xr, "beyond listed properties: comment attachment (informational)")
            rep.cov["beyond_listed_properties"] = {
                "what": "a definition owns exactly the comment lines immediately above it (TextPos!CommentsAbove vs the "
                        "AST's comment_block); informational, never a verdict",
                "definitions_compared": sum(len(x["obs"]) - 1 for x in xtraces),
                "programs_not_explained": [v["why"] for v in xv if not v["ok"] and not v["why"].split(":", 1)[-1].startswith("skip")][:5]}
    rep.add_tlc(r, "trace-validation:Compiler + TextPos + lint expectations")
    rep.cov["traces_validated_against_impl"] = len(traces)
    for tr, pr, v in zip(traces, progs, verdicts):
        rep.count("evaluations", len(tr["obs"]))
        nbad = sum(1 for ds in pr["files"].values() for d in all_decls(ds) if d.get("style") == "bad")
        rep.count("violating_names", nbad)
        rep.count("positions_compared", len([e for e in tr["obs"] if e["ev"] in ("Pos", "RefPos")]))
        rep.distinct(pr["_texts"][pr["main"]], nbad > 0)
        if v["ok"]:
            w = [e for e in tr["obs"] if e["ev"] == "Warnings"]
            if nbad and w:
                rep.sample({"schema": pr["_texts"], "warnings": w[0]["list"]}, limit=3)
            continue
        clause = v["why"].split(":", 1)[-1]
        if clause.startswith("skip"):
            rep.count("skipped:" + clause.split(":")[1])
            continue
        if clause.startswith("machinery"):
            raise common.MachineryError("trace %s: %s" % (tr["id"], v["why"]))
        idx = int(v["why"].split(":")[0]) - 1
        case = {"id": tr["id"], "schema": pr["_texts"], "event": tr["obs"][idx], "seed": seed,
                "spec_verdict": v["status"] + ":" + v["kind"]}
        rep.decide(case, v["why"], [])
    rep.cov["rule"] = ("random valid programs whose definitions are tagged conforming / clearly violating / unclear, "
                       "with blank lines, comments, optional semicolons, a definition on line 1 and imported files; "
                       "TLC decides each definition's line/column/indent (TextPos), the warning set, the check-only "
                       "exit status and that -q changes neither exit status nor output; distinct_nontrivial counts "
                       "distinct program texts with at least one violating name")
    return rep.finish()
