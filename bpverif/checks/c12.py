"""C12 -- the wire format depends only on field numbers and resolved types."""
import os
import random

from .. import cdrive, common, drive, gen, prog as P, render, rewrite, tlc
from ..report import Report
from . import comptrace, cwire, pywire, ufull


DECOY = {"dir": None}


def encode_py(pr, t, values, d):
    """Compiles the version to Python and encodes the values (assigned through resolved type t).  The compiler runs
    with its working directory in a place that holds unrelated files under the imported files' names: an import is
    relative to the importing file, never to where the compiler happens to be started."""
    main_path = os.path.join(d, pr["main"] + ".bitproto")
    paths = {n: os.path.join(d, n + ".bitproto") for n in pr["files"]}
    cwd = os.getcwd()
    if DECOY["dir"]:
        for n in pr["files"]:
            dp = os.path.join(DECOY["dir"], n + ".bitproto")
            if not os.path.exists(dp):
                with open(dp, "w") as f:
                    f.write("proto %s\n\nconst DECOY = 1\n" % n)
        os.chdir(DECOY["dir"])
    try:
        drive.compile_program(paths, pr["order"], "py", d)
    finally:
        os.chdir(cwd)
    mod = drive.load_py(d, pr["main"] + "_bp")
    try:
        cls = getattr(mod, pr["top"])
        out = []
        for v in values:
            o = cls()
            drive.py_set(o, t, v, enum_as_member=False)
            out.append(bytes(o.encode()))
        return out
    finally:
        drive.unload_py(d)


def c_names_collide(pr):
    """Two definitions of the import closure flatten to the same C identifier (scope path concatenated)."""
    seen = set()

    def walk(decls, prefix):
        for d in decls:
            if d["d"] in ("message", "enum", "alias", "const"):
                flat = (prefix + d["name"]).lower().replace("_", "")
                if flat in seen:
                    return True
                seen.add(flat)
                if d["d"] == "message" and walk(d["body"], prefix + d["name"]):
                    return True
        return False
    return any(walk(decls, "") for decls in pr["files"].values())


def main(tier, replay=None):
    rep = Report("C12", tier)
    seed = common.seed()
    rep.assumptions += [
        "a rewrite is applied by the harness; whether it preserved the layout for the program at hand (a rename "
        "that captures another reference, a move that breaks declare-before-use ...) is decided by the specification: "
        "steps after which Compiler.tla rejects the program or resolves the top message to a different layout are "
        "dropped, not judged",
        "every version's resolved type comes from Compiler.tla (WantType), not from the compiler under test",
    ]
    nchains, nsteps, nvals = (80, 4, 3) if tier == "quick" else (1500, 8, 5)
    chains = []
    with common.Scratch("c12") as scratch:
        DECOY["dir"] = scratch.sub()
        # ---- build chains, render every version, ask the specification for the resolved types ----
        ctraces, cmeta = [], []
        # directed bases next to the random ones: one leaf type held as scalar, aliased scalar, array element and
        # aliased array at every bit offset (U_full of C14), for widths around the storage sizes -- rewrites that
        # introduce / inline aliases act on exactly the positions where an alias must be transparent
        wide = [{"k": "uint", "n": 33}, {"k": "int", "n": 40}, {"k": "uint", "n": 64}, {"k": "int", "n": 64},
                {"k": "int", "n": 24}, {"k": "uint", "n": 17}, {"k": "int", "n": 7}, {"k": "bool"}]
        directed = wide[:4] if tier == "quick" else wide
        for k in range(nchains + len(directed)):
            rng = random.Random("c12/%d/%d" % (seed, k))
            if k >= nchains:
                base = ufull.ufull_prog(directed[k - nchains], cap=2)
            else:
                base, _ = gen.rand_case(seed, 170000 + k, max_bits=rng.choice([60, 300, 1000]), consts=True)
            ch = rewrite.chain(base, rng, rng.randint(1, nsteps))
            vals0 = [gen.gen_value(rng, base["rtype"], "ones")] + [gen.gen_value(rng, base["rtype"], "rand")
                                                                  for _ in range(nvals - 1)]
            versions = []
            vals = vals0
            prev_rt = base["rtype"]
            for vi, (pr, mapper, descr) in enumerate(ch):
                if mapper is not None:
                    vals = [mapper(prev_rt, v) for v in vals]
                prev_rt = pr["rtype"]
                d = scratch.sub()
                lay = render.Layout(indent=pr.get("_layout_indent", 4))
                tr, proto, main_path = comptrace.make_trace(
                    "c12-%d-%d-%d" % (seed, k, vi), pr, d, want=(),
                    lay=lay, extra_obs=[{"ev": "WantType", "file": pr["main"], "path": [pr["top"]]}])
                ctraces.append(tr)
                cmeta.append((k, vi))
                versions.append({"pr": pr, "dir": d, "descr": descr, "vals": vals, "trace": tr})
                rep.feature("rewrite:" + descr.split(" ")[0] + " " + (descr.split(" ")[1] if " " in descr else ""))
            chains.append(versions)
        verdicts, r = comptrace.validate(ctraces)
        rep.add_tlc(r, "resolution:Compiler machine over every version")
        rtypes = comptrace.resolved_types(r)
        for idx, ((k, vi), v) in enumerate(zip(cmeta, verdicts)):
            ver = chains[k][vi]
            ver["spec"] = v
            want_idx = [i for i, e in enumerate(ctraces[idx]["obs"]) if e["ev"] == "WantType"][0]
            ver["t"] = rtypes.get((idx, want_idx))
        # ---- run the real code on every version the specification accepts ----
        wtraces, wmeta = [], []
        for k, versions in enumerate(chains):
            events, srcs = [], []
            prev = None
            for vi, ver in enumerate(versions):
                v = ver["spec"]
                if v["status"] != "accepted" or ver["t"] is None:
                    rep.count("steps_dropped_spec_rejects")
                    break
                if not v["ok"]:
                    # the real compiler disagrees with the specification about this version
                    events.append({"ev": "Raise", "what": "compiler-vs-spec:" + v["why"]})
                    srcs.append(vi)
                    break
                t = ver["t"]
                if prev is not None:
                    events.append({"ev": "SameLayout", "t1": prev["t"], "t2": t})
                    srcs.append(vi)
                try:
                    sms = [gen.sm_tree(t, val) for val in ver["vals"]]
                except (TypeError, ValueError, IndexError, KeyError, AttributeError):
                    # the harness's values no longer have the shape of the type the specification resolves (the
                    # rewrite captured a reference): the SameLayout event above decides; nothing more to propose
                    rep.count("steps_dropped_value_shape")
                    break
                try:
                    bufs = encode_py(ver["pr"], t, ver["vals"], ver["dir"])
                except Exception as exc:
                    events.append({"ev": "Raise", "what": "%s@%s@version-%d" % (drive.exc_signature(exc) + (vi,))})
                    srcs.append(vi)
                    break
                ver["bufs"] = bufs
                for j, (val, b) in enumerate(zip(ver["vals"], bufs)):
                    events.append({"ev": "Encode", "t": t, "v": sms[j], "bytes": list(b)})
                    srcs.append(vi)
                    if prev is not None:
                        events.append({"ev": "SameBytes", "a": list(prev["bufs"][j]), "b": list(b)})
                        srcs.append(vi)
                prev = ver
            wtraces.append({"id": "c12-chain-%d" % k, "t": {"k": "bool"}, "events": events})
            wmeta.append(srcs)
        wverdicts, r2 = tlc.validate_traces("WireTrace", "WireTrace.cfg", wtraces)
        rep.add_tlc(r2, "trace-validation:bytes of every version against Wire!Enc of the spec-resolved type")
        # the specification's verdict per chain bounds what the C part may compare: versions from the first
        # event that is not accepted (a rewrite Wire/Compiler call not layout preserving, or a failure) are out
        good_upto = []
        for srcs, (ok, why) in zip(wmeta, wverdicts):
            if ok:
                good_upto.append(None)
            else:
                idx = int(why.split(":")[0]) - 1
                good_upto.append(srcs[idx] if 0 <= idx < len(srcs) else 0)
        # ---- the C encoders along the same chains: -O when every version is traditional, standard mode else ----
        worker = cdrive.Worker()
        try:
            builder = cdrive.CBuilder(scratch, cflags=("-O1",))
            ccases, cmeta2 = [], []
            for k, versions in enumerate(chains):
                lim = len(versions) if good_upto[k] is None else good_upto[k]
                usable = []
                for v in versions[:lim]:
                    if v.get("bufs") is None or v.get("t") is None:
                        break
                    if c_names_collide(v["pr"]):
                        # C has no namespaces (docs/c-guide.rst, "Naming Prefix"): a rename onto a name that an
                        # imported file also defines is not a rewrite the C output is expected to survive
                        rep.count("c_versions_not_proposed_flat_name_collision")
                        break
                    usable.append(v)
                if len(usable) < 2 or (k % 2 and tier == "quick" and k < nchains):
                    continue
                # traditional mode is a property of the whole text (a marker on a definition Top never uses counts)
                trad = all("'" not in txt for v in usable for txt in (v["pr"].get("_texts") or {"": "'"}).values())
                for vi, ver in enumerate(usable):
                    pr = dict(ver["pr"], rtype=ver["t"])
                    cc = cwire.CCase("c12-c-%d-%d" % (k, vi), pr, ver["vals"])
                    ccases.append(cc)
                    cmeta2.append((k, vi, trad, ver))
            by_mode = {True: [], False: []}
            for cc, m in zip(ccases, cmeta2):
                by_mode[m[2]].append((cc, m))
            for trad, items in by_mode.items():
                if not items:
                    continue
                built = cwire.prepare([cc for cc, _ in items], scratch, builder, optimize=trad)
                for (cc, lib), (_, m) in zip(built, items):
                    if lib is not None:
                        cwire.drive_case(cc, lib, worker, want=("enc",))
                    m[3]["cbufs"] = [bytes(e["bytes"]) for e in cc.events if e["ev"] == "CEncode"]
                    m[3]["cmode"] = "c -O" if trad else "c"
            # bytes of consecutive versions must agree in C too
            prev = {}
            for cc, (k, vi, trad, ver) in zip(ccases, cmeta2):
                if k in prev and prev[k].get("cbufs") and ver.get("cbufs") and len(prev[k]["cbufs"]) == len(ver["cbufs"]):
                    for a, b in zip(prev[k]["cbufs"], ver["cbufs"]):
                        cc.events.append({"ev": "SameBytes", "a": list(a), "b": list(b)})
                        cc.event_src.append(-1)
                prev[k] = ver
                cc.note = {"steps": [v["descr"] for v in chains[k][:chains[k].index(ver) + 1]], "mode": ver.get("cmode")}
            pywire.validate_and_decide(rep, ccases, count_events=("CEncode",))
            # the portable (big-endian) branch of the -O encoders is value based and runs on this host: the same
            # traditional versions, built with -DBP_BIG_ENDIAN
            be_items = [(cc, m) for cc, m in zip(ccases, cmeta2) if m[2]]
            if be_items:
                bbuilder = cdrive.CBuilder(scratch, cflags=("-O1",), defines=("BP_BIG_ENDIAN",))
                bcases = [cwire.CCase(cc.cid + "-be", cc.prog, cc.values) for cc, _ in be_items]
                for (bc, lib), (cc, m) in zip(cwire.prepare(bcases, scratch, bbuilder, optimize=True), be_items):
                    if lib is not None:
                        cwire.drive_case(bc, lib, worker, want=("enc",))
                    bc.note = dict(cc.note or {}, mode="c -O -DBP_BIG_ENDIAN")
                    rep.feature("c -O big-endian branch")
                pywire.validate_and_decide(rep, bcases, count_events=("CEncode",))
        finally:
            worker.close()
    rep.cov["traces_validated_against_impl"] = len(wtraces)
    for k, (versions, tr, srcs, (ok, why)) in enumerate(zip(chains, wtraces, wmeta, wverdicts)):
        nenc = len([e for e in tr["events"] if e["ev"] == "Encode"])
        rep.count("evaluations", nenc)
        rep.distinct(tuple(v["descr"] for v in versions), len(versions) >= 2)
        if ok:
            if len(versions) >= 2 and "bufs" in versions[-1]:
                rep.sample({"steps": [v["descr"] for v in versions],
                            "first": versions[0]["pr"].get("_texts"), "last": versions[-1]["pr"].get("_texts"),
                            "bytes_hex": versions[-1]["bufs"][0].hex()}, limit=3)
            continue
        clause = why.split(":", 1)[-1]
        if clause.startswith("skip"):
            rep.count("chains_cut_rewrite_not_applicable")
            continue
        if clause.startswith("machinery"):
            raise common.MachineryError("chain %d: %s" % (k, why))
        idx = int(why.split(":")[0]) - 1
        vi = srcs[idx]
        e = dict(tr["events"][idx])
        case = {"chain": k, "steps": [v["descr"] for v in versions[:vi + 1]],
                "before": versions[max(0, vi - 1)]["pr"].get("_texts"), "after": versions[vi]["pr"].get("_texts"),
                "event": e, "seed": seed}
        rep.decide(case, "after '%s': %s" % (versions[vi]["descr"], clause), [])
    rep.cov["rule"] = ("random valid programs x chains of the listed rewrites (rename incl. names reused from other "
                       "scopes, reorder fields, reorder definitions, introduce/inline alias, nest/unnest, move into an "
                       "imported file, comments/whitespace/semicolons, literal -> constant expression, order-preserving "
                       "renumbering) x values mapped through the rewrites; every version's bytes are decided against "
                       "Wire!Enc of the type Compiler.tla resolves, and against the previous version's bytes; "
                       "distinct_nontrivial counts distinct rewrite sequences of length >= 1")
    return rep.finish()
