"""C19 -- Go standard-mode output describes the same messages as the Python output."""
import os
import random

from .. import common, drive, gen, goparse, render, tlc
from ..report import Report
from . import pywire


def py_tree(p):
    common.use_repo()
    from bitprotolib import bp
    if isinstance(p, bp.MessageProcessor):
        return {"p": "msg", "ext": bool(p.extensible), "nbits": int(p.nbits),
                "fields": [{"num": int(f.field_number), "t": py_tree(f.type_processor)} for f in p.field_processors]}
    if isinstance(p, bp.Array):
        return {"p": "array", "ext": bool(p.extensible), "cap": int(p.capacity), "elem": py_tree(p.element_processor)}
    if isinstance(p, bp.AliasProcessor):
        return {"p": "alias", "to": py_tree(p.to)}
    if isinstance(p, bp.EnumProcessor):
        return {"p": "enum", "n": int(p.ut.nbits)}
    if isinstance(p, bp.Bool):
        return {"p": "bool"}
    if isinstance(p, bp.Byte):
        return {"p": "byte"}
    if isinstance(p, bp.Uint):
        return {"p": "uint", "n": int(p.nbits)}
    if isinstance(p, bp.Int):
        return {"p": "int", "n": int(p.nbits)}
    return {"p": "?", "repr": repr(p)[:40]}


def helper_events():
    common.use_repo()
    from bitprotolib import bp
    with open(os.path.join(common.REPO_LIBGO, "bitproto.go")) as f:
        gotext = f.read()
    defs = goparse.helper_defs(gotext, ["getMask", "getNbitsToCopy", "smartShift", "min"])
    mask = [[k, c, int(bp.get_mask(k, c))] for k in range(8) for c in range(1, 9 - k)]
    ncopy = [[i, j, n, int(bp.get_nbits_to_copy(i, j, n))] for i in range(16) for n in range(1, 65) for j in range(n)]
    shift = [[b, k, int(bp.smart_shift(b, k)) % 65536] for b in range(256) for k in range(-7, 8)]
    return [{"ev": "GoHelpers", "defs": defs}, {"ev": "PyHelpers", "mask": mask, "ncopy": ncopy, "shift": shift}]


def main(tier, replay=None):
    rep = Report("C19", tier)
    seed = common.seed()
    rep.assumptions += [
        "static: Go is never compiled or run (no toolchain); the .go text is read structurally and a form the reader "
        "does not know is a machinery failure (exit 2)",
        "the Python side is the processor tree object the generated module actually builds (Top().bp_processor())",
        "helper results are compared as bytes for smartShift (Go returns a byte, Python an unbounded integer)",
        "Go field / type names are only used to connect accessor cases with struct fields; the field a case addresses "
        "is identified by the position of the struct field it names (the struct is checked to be in field-number order)",
    ]
    n = 100 if tier == "quick" else 2500
    traces, metas = [], []
    with common.Scratch("c19") as scratch:
        try:
            traces.append({"id": "c19-helpers", "t": {"k": "bool"}, "events": helper_events()})
        except goparse.GoParseError as e:
            raise common.MachineryError("cannot read the Go runtime helpers: %s" % e)
        metas.append(None)
        for k in range(n + 1):
            rng = random.Random("c19/%d/%d" % (seed, k))
            if k == n:
                pr = gen.same_names_program()       # the same bare name for different definitions in different scopes
            else:
                pr, _ = gen.rand_case(seed, 240000 + k, max_bits=rng.choice([60, 300, 1000]))
            d = scratch.sub()
            main_path, paths = render.write_program(pr, d)
            drive.compile_program(paths, pr["order"], "go", d)
            drive.compile_program(paths, pr["order"], "py", d)
            texts = {f: open(os.path.join(d, f + "_bp.go")).read() for f in pr["order"]}
            gfiles = {}
            for f in pr["order"]:
                gfiles[f] = goparse.GoFile(texts[f])
            libref = None
            for x in pr["files"][pr["main"]]:
                if x["d"] == "import":
                    libref = x.get("as") or x["file"]
                    gfiles[pr["main"]].imports[libref] = gfiles[x["file"]]
            events = []
            try:
                mod = drive.load_py(d, pr["main"] + "_bp")
                for f, path, m in gen.all_messages(pr):
                    if f != pr["main"]:
                        continue
                    gname = "".join(path)
                    gf = gfiles[f]
                    t = gen.export_type(m)
                    cls = getattr(mod, "_".join(path))
                    events.append({"ev": "GoStruct", "t": t, "msg": gname,
                                   "fields": [gf.shape(ty) for g, ty, tag in gf.struct_fields(gname)]})
                    events.append({"ev": "Sizes", "t": t, "msg": gname,
                                   "go_const": gf.size_const("_".join(_upper_snake(p) for p in path)),
                                   "go_method": gf.size_method(gname), "py": int(cls.BYTES_LENGTH)})
                    events.append({"ev": "Tree", "t": t, "msg": gname, "lang": "go", "tree": gf.msg_proc(gname)})
                    events.append({"ev": "Tree", "t": t, "msg": gname, "lang": "py", "tree": py_tree(cls().bp_processor())})
                    rows = goparse.accessor_rows(gf, gname)
                    events.append(dict(rows, ev="GoRows", t=t, msg=gname))
            except goparse.GoParseError as e:
                raise common.MachineryError("cannot read generated Go of case %d: %s" % (k, e))
            finally:
                drive.unload_py(d)
            for e in events:
                if e["ev"] == "Sizes" and (e["go_const"] is None or e["go_method"] is None):
                    raise common.MachineryError("size constant/method of %s not found" % e["msg"])
            traces.append({"id": "c19-%d-%d" % (seed, k), "t": {"k": "bool"}, "events": events})
            metas.append(pr)
            for ft in gen.features(pr["rtype"]):
                rep.feature(ft)
        verdicts, r = tlc.validate_traces("WireTrace", "WireTrace.cfg", traces, timeout=3000)
    rep.add_tlc(r, "trace-validation:Go/Python structure against ProcTree/GoShape; helper domains")
    rep.cov["traces_validated_against_impl"] = len(traces)
    for tr, pr, (ok, why) in zip(traces, metas, verdicts):
        rep.count("evaluations", len(tr["events"]))
        if pr is not None:
            rep.distinct(gen.shape_key(pr["rtype"]), pywire.nontrivial(pr["rtype"]))
        if ok:
            if pr is not None and tr["events"]:
                e = [x for x in tr["events"] if x["ev"] == "GoRows"][0]
                rep.sample({"schema": pywire.program_text(pr), "message": e["msg"],
                            "rows": {k_: e[k_] for k_ in ("set", "acc", "sign")}}, limit=2)
            continue
        clause = why.split(":", 1)[-1]
        if clause.startswith("machinery"):
            raise common.MachineryError("%s: %s" % (tr["id"], why))
        idx = int(why.split(":")[0]) - 1
        e = {k_: v_ for k_, v_ in tr["events"][idx].items() if k_ not in ("defs", "mask", "ncopy", "shift")}
        case = {"schema": pywire.program_text(pr) if pr else "lib/go/bitproto.go helpers", "event": e, "seed": seed}
        rep.decide(case, "%s: %s" % (e.get("msg", "helpers"), clause), [])
    rep.cov["helper_domain_points"] = 36 + 16 * 2080 + 256 * 15 + 79 * 79
    rep.cov["rule"] = ("random valid schemas: per message of the main file the Go struct (field order, smallest covering "
                       "types), Go size constant and Size(), Python BYTES_LENGTH, the Go processor tree (read from the "
                       "text, named processors expanded) and the Python processor tree object, the Go byte accessor / "
                       "accessor / sign-extension switch cases -- all decided by TLC against ProcTree / GoShape / Bottom "
                       "of the intended type; plus the Go helpers (parsed bodies evaluated by TLC) and the Python helpers "
                       "(called) over their whole domains; distinct_nontrivial counts distinct schema shapes")
    return rep.finish()


def _upper_snake(name):
    from ..cdrive import upper_snake
    return upper_snake(name)
