"""Replaying the complete case list of MC_CCopy through the real BpCopyBufferBits (ctypes),
recording each call as a Copy event that TLC decides with the CCopy machine."""
import os
import random
import subprocess

from .. import cdrive, common


def build_runtime_so(scratch, cflags=("-O1",), defines=()):
    d = scratch.sub()
    so = os.path.join(d, "libbitproto.so")
    cmd = ["gcc", "-shared", "-fPIC", "-w"] + list(cflags) + ["-D" + x for x in defines] + \
          ["-I", common.REPO_LIBC, os.path.join(common.REPO_LIBC, "bitproto.c"), "-o", so]
    p = subprocess.run(cmd, capture_output=True, text=True)
    if p.returncode != 0:
        raise common.MachineryError("cannot build lib/c/bitproto.c: " + p.stderr[:500])
    return so


def copy_traces(scratch, worker, be, max_n, seed, cflags=("-O1",), per_case=1, library_use_only=False):
    """Every (n, di, si) with n <= max_n; destination region zeroed (contract), everything
    else random; exact-size buffers flush against guard pages."""
    so = build_runtime_so(scratch, cflags=cflags, defines=(("BP_BIG_ENDIAN",) if be else ()))
    rng = random.Random("ccopy/%d/%s" % (seed, be))
    copies, metas = [], []
    for n in range(1, max_n + 1):
        for di in range(8):
            for si in range(8):
                if library_use_only and di and si:
                    continue
                for _ in range(per_case):
                    sl, dl = (si + n + 7) // 8, (di + n + 7) // 8
                    src = bytearray(rng.getrandbits(8) for _ in range(sl))
                    dst = bytearray(rng.getrandbits(8) for _ in range(dl))
                    for p in range(di, di + n):
                        dst[p // 8] &= ~(1 << (p % 8)) & 255
                    copies.append([n, di, si, bytes(src).hex(), bytes(dst).hex()])
                    metas.append((n, di, si, src, dst))
    traces = []
    B = 400
    for k in range(0, len(copies), B):
        events = []
        for guard in ("high", "low"):
            st, res = worker.call({"so": so, "copies": copies[k:k + B], "guard": guard})
            if st != "ok":
                # find the culprit one by one so the replay names the exact call
                for c, m in zip(copies[k:k + B], metas[k:k + B]):
                    st1, res1 = worker.call({"so": so, "copies": [c], "guard": guard})
                    if st1 != "ok":
                        events.append({"ev": "Fault", "what": "BpCopyBufferBits(n=%d,di=%d,si=%d) %s guard: %s"
                                                               % (m[0], m[1], m[2], guard, res1)})
                        break
                continue
            for (n, di, si, src, dst), r in zip(metas[k:k + B], res):
                if not r["slack"] or not r["src_unchanged"]:
                    events.append({"ev": "Fault", "what": "BpCopyBufferBits(n=%d,di=%d,si=%d) wrote outside" % (n, di, si)})
                events.append({"ev": "Copy", "be": be, "n": n, "di": di, "si": si, "src": list(src),
                               "dst0": list(dst), "dst1": list(bytes.fromhex(r["dst"]))})
        traces.append({"id": "copy-%s-%d" % ("be" if be else "le", k), "t": {"k": "bool"}, "events": events})
    return traces
