"""Direction spec -> code for the front end: every complete program TLC writes in MC_CompilerDump
(all programs of at most MaxDecls declarations over the names {A, B}) is rendered to text and given
to the real parser; the verdict and the resolved references the machine printed are the expectation."""
import json
import multiprocessing
import os
import shutil
import tempfile

from .. import common, flatprog, prog as P, tlc


def dump_programs(maxdecls, placed=False, timeout=3000):
    from . import designlevel as dl
    cfg = open(os.path.join(common.SPEC, "MC_CompilerDump.cfg")).read().replace(
        "MaxDecls = 4", "MaxDecls = %d" % maxdecls).replace("Placed = FALSE", "Placed = %s" % str(bool(placed)).upper())
    # one worker: PrintT lines of several workers interleave
    r = dl.run_cfg("MC_CompilerDump", cfg, timeout=timeout, workers=1)
    tlc.machinery_check(r, "MC_CompilerDump")
    if r.violated:
        raise common.MachineryError("MC_CompilerDump: %s" % r.violated)
    rows = [json.loads(s[2:]) for s in r.lines if s.startswith("P|")]
    if not rows:
        raise common.MachineryError("MC_CompilerDump printed no program")
    return rows, r


def _replay_chunk(args):
    rows, repo = args
    assert repo == common.REPO
    d = tempfile.mkdtemp(prefix="bpverif-ss-", dir=os.environ.get("TMPDIR", "/tmp"))
    out = []
    try:
        for k, row in enumerate(rows):
            path = os.path.join(d, "p%d.bitproto" % k)
            ds = [dict(x) for x in row["ds"]]
            text = flatprog.render_flat(ds)
            lines_moved = [x["line"] for x in ds] != [x["line"] for x in row["ds"]]
            with open(path, "w") as f:
                f.write(text)
            proto, outcome = P.observe_parse(path)
            os.remove(path)
            why = ""
            if lines_moved:
                why = "machinery:renderer-moved-lines"
            elif outcome["outcome"] not in ("accepted", "rejected"):
                why = "raise:%s %s" % (outcome["outcome"], outcome["what"])
            elif outcome["outcome"] != row["st"]:
                why = ("accepted-an-invalid-schema:" + row["kind"]) if row["st"] == "rejected" \
                    else "rejected-a-valid-schema:" + outcome["what"]
            elif proto is not None:
                refs = [e for e in P.observe_accepted(proto, want=("refs",)) if e["ev"] == "Refs"][0]["refs"]
                got = sorted((r[1], tuple(r[2]), r[4]) for r in refs)
                want = sorted((r[0], tuple(r[1]), r[2]) for r in row["refs"])
                if got != want:
                    why = "resolves-elsewhere: parser %s, machine %s" % (got, want)
            if why:
                out.append((text, why, row["amb"]))
    finally:
        shutil.rmtree(d, ignore_errors=True)
    return len(rows), out


def replay(rows, jobs=16):
    """Returns (number replayed, [(text, why, ambiguous)])."""
    n = max(1, len(rows) // (jobs * 8))
    chunks = [(rows[i:i + n], common.REPO) for i in range(0, len(rows), n)]
    bad = []
    total = 0
    with multiprocessing.Pool(jobs) as pool:
        for cnt, out in pool.imap_unordered(_replay_chunk, chunks):
            total += cnt
            bad += out
    return total, bad


def run(rep, tier, kinds):
    """Replays every TLC-written program; mismatches of the given kinds are decided (violations), the
    others are left to the property that owns them.  kinds: prefixes of the 'why' strings."""
    # two writers: any declaration anywhere (mostly grammar / placement rejections), and declarations in
    # the places the grammar allows (longer programs; rejections come from names, numbers and resolution)
    plan = [(3, False), (6, True)] if tier == "quick" else [(5, False), (7, True)]
    summary = []
    grand = 0
    for n, placed in plan:
        rows, r = dump_programs(n, placed)
        rep.add_tlc(r, "spec->code:every complete program of <= %d declarations over {A,B} (%s), written by TLC "
                       "with the machine's verdict and resolutions" % (n, "well placed" if placed else "any placement"),
                    constants={"MaxDecls": n, "Placed": placed})
        total, bad = replay(rows)
        if total != len(rows):
            raise common.MachineryError("small-scope replay: %d of %d programs replayed" % (total, len(rows)))
        acc = len([x for x in rows if x["st"] == "accepted"])
        summary.append({
            "max_declarations": n, "well_placed_only": placed, "programs_replayed_into_the_real_parser": total,
            "accepted_by_the_machine": acc, "rejected_by_the_machine": total - acc,
            "references_compared": sum(len(x["refs"]) for x in rows if x["st"] == "accepted"),
            "mismatches": len(bad)})
        rep.count("evaluations", total)
        grand += total
        for text, why, amb in bad:
            if why.startswith("machinery:"):
                raise common.MachineryError("small-scope replay: %s\n%s" % (why, text))
            if amb:
                rep.count("small_scope_mismatch_on_ambiguous_dotted_path")
                continue
            if any(why.startswith(k) for k in kinds):
                rep.decide({"schema": {"p": text}, "source": "TLC-written program (MC_CompilerDump)"},
                           "small-scope replay: " + why, [])
    rep.cov["small_scope_replay"] = summary
    return grand
