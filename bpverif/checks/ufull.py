"""U_full: the complete finite space of C14 -- every base type x bit offset 0..7 x position
(scalar, array element incl. the batch-copy path, aliased) x basis values."""
from .. import gen


def ufull_prog(T, cap=5):
    """One message per leaf type T holding T as scalar, as aliased scalar and as array (and
    aliased array) element, each starting at every bit offset 0..7 (pads steer the offset)."""
    n = gen.leaf_bits(T)
    body, fields = [], []
    cur = 0
    num = [0]
    top_decls = [{"d": "alias", "name": "Ta", "t": dict(T)},
                 {"d": "alias", "name": "Tarr", "t": {"k": "array", "elem": dict(T), "cap": gen.lit(2), "ext": False}}]
    ali = {"k": "alias", "name": "Ta", "to": dict(T)}
    aliarr = {"k": "alias", "name": "Tarr", "to": {"k": "array", "ext": False, "cap": 2, "elem": dict(T)}}

    def add(name, te, rt, bits):
        nonlocal cur
        num[0] += 1
        body.append({"d": "field", "name": name, "num": num[0], "t": te})
        fields.append({"num": num[0], "name": name, "t": rt, "_role": name.split("_")[0]})
        cur += bits

    def steer(k, tag):
        w = (k - cur) % 8
        if w:
            add("pad_%s%d" % (tag, k), {"k": "uint", "n": w}, {"k": "uint", "n": w}, w)

    for k in range(8):
        steer(k, "s")
        add("x_%d" % k, dict(T), dict(T), n)
    for k in range(8):
        steer(k, "a")
        add("arr_%d" % k, {"k": "array", "elem": dict(T), "cap": gen.lit(cap), "ext": False},
            {"k": "array", "ext": False, "cap": cap, "elem": dict(T)}, cap * n)
    for k in range(8):
        steer(k, "l")
        add("ali_%d" % k, gen.tref(["Ta"]), ali, n)
    for k in (0, 3, 5):
        steer(k, "m")
        add("alarr_%d" % k, gen.tref(["Tarr"]), aliarr, 2 * n)
        # array of aliased element (the batch path looks through the alias flag)
        steer(k, "n")
        add("arrali_%d" % k, {"k": "array", "elem": gen.tref(["Ta"]), "cap": gen.lit(3), "ext": False},
            {"k": "array", "ext": False, "cap": 3, "elem": ali}, 3 * n)
    for k in (0, 6):
        # two-dimensional: an array whose elements are the aliased array (rows must stay separate objects)
        steer(k, "g")
        add("grid_%d" % k, {"k": "array", "elem": gen.tref(["Tarr"]), "cap": gen.lit(3), "ext": False},
            {"k": "array", "ext": False, "cap": 3, "elem": aliarr}, 6 * n)
    add("pad_tail", {"k": "uint", "n": 3}, {"k": "uint", "n": 3}, 3)
    rt = {"k": "msg", "name": "Top", "ext": False, "fields": fields}
    prog = {"files": {"main": [{"d": "proto", "name": "main"}] + top_decls +
                      [{"d": "message", "name": "Top", "ext": False, "body": body}]},
            "order": ["main"], "main": "main", "top": "Top", "rtype": rt, "nbits": cur}
    return prog


def fill(t, x, padv):
    """Value tree: every T leaf = x, every pad = padv pattern."""
    out = []
    for f in t["fields"]:
        ft = gen.strip(f["t"])
        if f["name"].startswith("pad_"):
            out.append(((1 << ft["n"]) - 1) if padv else 0)
        elif gen.is_leaf(ft):
            out.append(x)
        else:
            et = gen.strip(ft["elem"])
            if gen.is_leaf(et):
                out.append([x] * ft["cap"])
            else:
                out.append([[x] * et["cap"] for _ in range(ft["cap"])])
    return out


def ufull_values(T, reduced):
    t = None
    vals = []
    for x in gen.basis_values(T, reduced=reduced):
        for padv in ((1,) if reduced else (0, 1)):
            vals.append((x, padv))
    return vals


def mixed_values(T, rng, prog, k=2):
    """Values where neighbouring leaves differ (catches cross-talk that uniform fills hide)."""
    out = []
    for _ in range(k):
        out.append(gen.gen_value(rng, prog["rtype"], "rand"))
    return out


def grid_progs(widths=None, per_msg=6):
    """Two-dimensional arrays Alias[2] whose rows (aliases of arrays, extensible or not) have storage padding
    that adds up to 8, 16, 24 or 32 bits -- the sizes at which 'row bits == 8 * sizeof(row)' holds by
    coincidence once a 16-bit prefix is counted.  Yields programs with `per_msg` such fields each, led by a
    uint3 so that half of the rows start off a byte boundary."""
    widths = widths or [3, 4, 5, 6, 7, 9, 12, 20, 24, 28, 40, 48, 56, 60]
    items = []
    for n in widths:
        S = 8 if n <= 8 else 16 if n <= 16 else 32 if n <= 32 else 64
        pad = S - n
        if pad <= 0:
            continue
        for target in (16, 8, 32, 24):
            if target % pad == 0 and 1 <= target // pad <= 16:
                for ext in (True, False):
                    for kind in ("uint", "int"):
                        items.append((kind, n, target // pad, ext))
    out = []
    for g in range(0, len(items), per_msg):
        chunk = items[g:g + per_msg]
        decls, body, fields = [], [], []
        body.append({"d": "field", "name": "lead", "num": 1, "t": {"k": "uint", "n": 3}})
        fields.append({"num": 1, "name": "lead", "t": {"k": "uint", "n": 3}})
        for x, (kind, n, cap, ext) in enumerate(chunk):
            T = {"k": kind, "n": n}
            name = "Row%d" % x
            ate = {"k": "array", "elem": dict(T), "cap": gen.lit(cap), "ext": ext}
            decls.append({"d": "alias", "name": name, "t": ate})
            art = {"k": "alias", "name": name, "to": {"k": "array", "ext": ext, "cap": cap, "elem": dict(T), "_texpr": ate}}
            fte = {"k": "array", "elem": gen.tref([name]), "cap": gen.lit(2), "ext": False}
            body.append({"d": "field", "name": "g%d" % x, "num": x + 2, "t": fte})
            fields.append({"num": x + 2, "name": "g%d" % x,
                           "t": {"k": "array", "ext": False, "cap": 2, "elem": art, "_texpr": fte}})
            if x == len(chunk) // 2:
                body.append({"d": "field", "name": "mid", "num": 100, "t": {"k": "uint", "n": 5}})
                fields.append({"num": 100, "name": "mid", "t": {"k": "uint", "n": 5}})
        decl = {"d": "message", "name": "Top", "ext": False, "body": body}
        rt = {"k": "msg", "name": "Top", "ext": False, "fields": fields, "_decl": decl}
        out.append({"files": {"main": [{"d": "proto", "name": "main"}] + decls + [decl]}, "order": ["main"],
                    "main": "main", "top": "Top", "rtype": rt, "nbits": None})
    return out
