"""U_full: the complete finite space of C14 -- every base type x bit offset 0..7 x position
(scalar, array element incl. the batch-copy path, aliased) x basis values."""
from .. import gen


def ufull_prog(T, cap=5):
    """One message per leaf type T holding T as scalar, as aliased scalar and as array (and
    aliased array) element, each starting at every bit offset 0..7 (pads steer the offset)."""
    n = gen.leaf_bits(T)
    body, fields = [], []
    cur = 0
    num = [0]
    top_decls = [{"d": "alias", "name": "Ta", "t": dict(T)},
                 {"d": "alias", "name": "Tarr", "t": {"k": "array", "elem": dict(T), "cap": gen.lit(2), "ext": False}}]
    ali = {"k": "alias", "name": "Ta", "to": dict(T)}
    aliarr = {"k": "alias", "name": "Tarr", "to": {"k": "array", "ext": False, "cap": 2, "elem": dict(T)}}

    def add(name, te, rt, bits):
        nonlocal cur
        num[0] += 1
        body.append({"d": "field", "name": name, "num": num[0], "t": te})
        fields.append({"num": num[0], "name": name, "t": rt, "_role": name.split("_")[0]})
        cur += bits

    def steer(k, tag):
        w = (k - cur) % 8
        if w:
            add("pad_%s%d" % (tag, k), {"k": "uint", "n": w}, {"k": "uint", "n": w}, w)

    for k in range(8):
        steer(k, "s")
        add("x_%d" % k, dict(T), dict(T), n)
    for k in range(8):
        steer(k, "a")
        add("arr_%d" % k, {"k": "array", "elem": dict(T), "cap": gen.lit(cap), "ext": False},
            {"k": "array", "ext": False, "cap": cap, "elem": dict(T)}, cap * n)
    for k in range(8):
        steer(k, "l")
        add("ali_%d" % k, gen.tref(["Ta"]), ali, n)
    for k in (0, 3, 5):
        steer(k, "m")
        add("alarr_%d" % k, gen.tref(["Tarr"]), aliarr, 2 * n)
        # array of aliased element (the batch path looks through the alias flag)
        steer(k, "n")
        add("arrali_%d" % k, {"k": "array", "elem": gen.tref(["Ta"]), "cap": gen.lit(3), "ext": False},
            {"k": "array", "ext": False, "cap": 3, "elem": ali}, 3 * n)
    add("pad_tail", {"k": "uint", "n": 3}, {"k": "uint", "n": 3}, 3)
    rt = {"k": "msg", "name": "Top", "ext": False, "fields": fields}
    prog = {"files": {"main": [{"d": "proto", "name": "main"}] + top_decls +
                      [{"d": "message", "name": "Top", "ext": False, "body": body}]},
            "order": ["main"], "main": "main", "top": "Top", "rtype": rt, "nbits": cur}
    return prog


def fill(t, x, padv):
    """Value tree: every T leaf = x, every pad = padv pattern."""
    out = []
    for f in t["fields"]:
        ft = gen.strip(f["t"])
        if f["name"].startswith("pad_"):
            out.append(((1 << ft["n"]) - 1) if padv else 0)
        elif gen.is_leaf(ft):
            out.append(x)
        else:
            et = gen.strip(ft["elem"])
            if gen.is_leaf(et):
                out.append([x] * ft["cap"])
            else:
                out.append([[x] * et["cap"] for _ in range(ft["cap"])])
    return out


def ufull_values(T, reduced):
    t = None
    vals = []
    for x in gen.basis_values(T, reduced=reduced):
        for padv in ((1,) if reduced else (0, 1)):
            vals.append((x, padv))
    return vals


def mixed_values(T, rng, prog, k=2):
    """Values where neighbouring leaves differ (catches cross-talk that uniform fills hide)."""
    out = []
    for _ in range(k):
        out.append(gen.gen_value(rng, prog["rtype"], "rand"))
    return out
