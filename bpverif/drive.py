"""Driving the real code under /repo: compiler (in-process and CLI), generated Python modules."""
import importlib
import os
import subprocess
import sys
import traceback

from . import common
from .gen import is_leaf, strip


# ---------------------------------------------------------------------------------------
# compiler
# ---------------------------------------------------------------------------------------

def compile_inproc(path, lang, outdir, optimize=False, filter_messages=None, endian="both", lint=False):
    """parse (+ lint, as the command line does unless -q is given) + render through the library entry points of
    the working tree (no os._exit)."""
    common.use_repo()
    from bitproto.parser import parse
    from bitproto.renderer import render

    proto = parse(path, traditional_mode=optimize)
    if lint:
        import contextlib
        import io
        from bitproto.linter import lint as _lint
        with contextlib.redirect_stderr(io.StringIO()), contextlib.redirect_stdout(io.StringIO()):
            _lint(proto)
    outs = render(proto, lang, outdir=outdir, optimization_mode=optimize,
                  optimization_mode_filter_messages=filter_messages,
                  optimization_mode_endian=endian)
    return proto, outs


def compile_program(paths, order, lang, outdir, **kw):
    """Compiles every file of a program (imported files first); returns {file: [outputs]}."""
    res = {}
    for name in order:
        _, outs = compile_inproc(paths[name], lang, outdir, **kw)
        res[name] = outs
    return res


CLI_CPU_LIMIT_S = 60


def cli(args, cwd=None, env=None, timeout=1800):
    """Runs the bitproto CLI of the working tree in a fresh process.

    The child may use CLI_CPU_LIMIT_S seconds of CPU time (a child that exceeds it is killed by SIGXCPU and
    reported with exit status -24: it hangs); the wall-clock timeout is a backstop far above that and
    raises, so that load on the machine never becomes an observation."""
    cmd = ["/bin/sh", "-c", 'ulimit -t %d; exec "$@"' % CLI_CPU_LIMIT_S, "sh",
           common.PY, "-m", "bitproto._main"] + list(args)
    try:
        p = subprocess.run(cmd, cwd=cwd, env=common.repo_env(env), capture_output=True, text=True,
                           timeout=timeout)
    except subprocess.TimeoutExpired:
        raise common.MachineryError("bitproto %s: no result within %ss of wall time" % (" ".join(args), timeout))
    return p.returncode, p.stdout, p.stderr


def exc_signature(exc):
    """(class name, innermost frame inside /repo as 'file:function') of an exception."""
    tb = traceback.extract_tb(exc.__traceback__)
    where = ""
    for fr in tb:
        fn = os.path.abspath(fr.filename)
        if fn.startswith(os.path.abspath(common.REPO) + os.sep):
            where = "%s:%s" % (os.path.relpath(fn, common.REPO), fr.name)
    if not where and tb:
        # generated code calling into nothing of /repo: name the generated function
        where = "generated:%s" % tb[-1].name
    return type(exc).__name__, where


# ---------------------------------------------------------------------------------------
# generated Python modules
# ---------------------------------------------------------------------------------------

def load_py(outdir, modname):
    common.use_repo()
    sys.path.insert(0, outdir)
    try:
        importlib.invalidate_caches()
        return importlib.import_module(modname)
    finally:
        sys.path.remove(outdir)


def unload_py(outdir):
    root = os.path.abspath(outdir) + os.sep
    for name, mod in list(sys.modules.items()):
        f = getattr(mod, "__file__", None)
        if f and os.path.abspath(f).startswith(root):
            del sys.modules[name]


def _leaf_for_assign(cur, t, x, enum_as_member):
    if t["k"] == "bool":
        return bool(x)
    if t["k"] == "enum" and enum_as_member:
        return type(cur)(x)
    return x


def py_set(obj, t, v, enum_as_member=True):
    """Assign value tree v (declaration order) to message instance obj of resolved type t."""
    for f, x in zip(t["fields"], v):
        ft = strip(f["t"])
        if is_leaf(ft):
            setattr(obj, f["name"], _leaf_for_assign(getattr(obj, f["name"]), ft, x, enum_as_member))
        elif ft["k"] == "array":
            _py_set_array(getattr(obj, f["name"]), ft, x, enum_as_member)
        else:
            py_set(getattr(obj, f["name"]), ft, x, enum_as_member)


def _py_set_array(arr, t, v, enum_as_member):
    et = strip(t["elem"])
    for i, x in enumerate(v):
        if is_leaf(et):
            arr[i] = _leaf_for_assign(arr[i], et, x, enum_as_member)
        elif et["k"] == "array":
            _py_set_array(arr[i], et, x, enum_as_member)
        else:
            py_set(arr[i], et, x, enum_as_member)


def py_get(obj, t):
    out = []
    for f in t["fields"]:
        ft = strip(f["t"])
        x = getattr(obj, f["name"])
        if is_leaf(ft):
            out.append(int(x))
        elif ft["k"] == "array":
            out.append(_py_get_array(x, ft))
        else:
            out.append(py_get(x, ft))
    return out


def _py_get_array(arr, t):
    et = strip(t["elem"])
    if len(arr) != t["cap"]:
        raise ValueError("array length %d != capacity %d" % (len(arr), t["cap"]))
    if is_leaf(et):
        return [int(x) for x in arr]
    if et["k"] == "array":
        return [_py_get_array(x, et) for x in arr]
    return [py_get(x, et) for x in arr]


# ---------------------------------------------------------------------------------------
# step-level observation of the Python runtime (no change to /repo: wrappers installed on
# bitprotolib.bp's module-level functions and methods at import time)
# ---------------------------------------------------------------------------------------

class StepRecorder:
    """Records one event per Codec action: message/array enter and leave with the cursor,
    every chunk (i, j, c) with its full path, end of every signed leaf when decoding."""

    def __init__(self):
        self.events = None
        self.path = []
        self.installed = False
        self.available = False

    def install(self):
        if self.installed:
            return self.available
        self.installed = True
        common.use_repo()
        from bitprotolib import bp
        need = ["process_single_byte", "MessageProcessor", "Array", "Int", "IntAccessor",
                "MessageFieldProcessor"]
        if not all(hasattr(bp, n) for n in need):
            return False   # attachment points gone: degrade to call-level events
        rec = self
        orig_psb = bp.process_single_byte
        orig_mp = bp.MessageProcessor.process
        orig_ap = bp.Array.process
        orig_ip = bp.Int.process

        def psb(ctx, di, accessor, j, c):
            if rec.events is not None:
                if isinstance(accessor, bp.IntAccessor):
                    p = [-1]
                else:
                    p = [y for lvl in rec.path for y in lvl] + [di.field_number] + list(di.aistack)
                rec.events.append(["C", ctx.i, j, c, p])
            return orig_psb(ctx, di, accessor, j, c)

        def mp(self_, ctx, di, accessor):
            if rec.events is None:
                return orig_mp(self_, ctx, di, accessor)
            pushed = False
            if di.is_valid():
                rec.path.append([di.field_number] + list(di.aistack))
                pushed = True
            rec.events.append(["M+", ctx.i])
            try:
                return orig_mp(self_, ctx, di, accessor)
            finally:
                rec.events.append(["M-", ctx.i])
                if pushed:
                    rec.path.pop()

        def ap(self_, ctx, di, accessor):
            if rec.events is None:
                return orig_ap(self_, ctx, di, accessor)
            rec.events.append(["A+", ctx.i])
            try:
                return orig_ap(self_, ctx, di, accessor)
            finally:
                rec.events.append(["A-", ctx.i])

        bp.process_single_byte = psb
        bp.MessageProcessor.process = mp
        bp.Array.process = ap
        self.available = True
        return True

    def start(self):
        self.events = []
        self.path = []

    def stop(self):
        ev, self.events = self.events, None
        return ev
