"""Abstract program -> the flat declaration list the Compiler specification consumes, and the
observation of what the real compiler does with the program's text."""
import os
import subprocess

from . import common, drive, render


def bits_of(v):
    out = []
    while v:
        out.append(v & 1)
        v >>= 1
    return out


def te_json(t):
    k = t["k"]
    if k in ("bool", "byte"):
        return {"k": k}
    if k in ("uint", "int"):
        return {"k": k, "n": t["n"]}
    if k == "ref":
        return {"k": "ref", "path": list(t["path"])}
    if k == "array":
        c = t["cap"]
        cap = {"e": "int", "v": c["v"]} if c["e"] == "int" else {"e": "ref", "path": list(c["path"])}
        return {"k": "array", "elem": te_json(t["elem"]), "cap": cap, "ext": bool(t["ext"])}
    raise ValueError(k)


def val_json(v):
    k = v["e"]
    if k == "bool":
        return {"e": "bool", "v": bool(v["v"])}
    if k == "str":
        return {"e": "str", "s": list(v["val"].encode("utf8"))}
    if k == "ref":
        return {"e": "ref", "path": list(v["path"])}
    return {"e": "calc", "toks": [t[:2] for t in render.expr_tokens(v)]}


def flatten_decls(decls, out):
    n0 = len(out)
    _flatten(decls, out)
    return out


def _flatten(decls, out):
    for d in decls:
        k = d["d"]
        L = d.get("_line", 0)
        mark = len(out)
        if k == "proto":
            out.append({"d": "proto", "name": d["name"], "line": L})
        elif k == "import":
            out.append({"d": "import", "file": d["file"], "as": d.get("as") or "", "line": L})
        elif k == "option":
            out.append({"d": "option", "name": d["name"], "v": val_json(d["v"]), "line": L})
        elif k == "const":
            out.append({"d": "const", "name": d["name"], "v": val_json(d["v"]), "line": L})
        elif k == "alias":
            out.append({"d": "alias", "name": d["name"], "t": te_json(d["t"]), "line": L})
        elif k == "message":
            out.append({"d": "openMsg", "name": d["name"], "ext": bool(d["ext"]), "line": L})
            out[mark]["style"] = d.get("style", "unclear")
            out[mark]["words"] = d.get("words", [])
            _flatten(d["body"], out)
            out.append({"d": "closeMsg", "line": d.get("_eline", 0)})
            mark = len(out) - 1
        elif k == "field":
            out.append({"d": "field", "name": d["name"], "num": d["num"], "t": te_json(d["t"]), "line": L})
        elif k == "enum":
            out.append({"d": "openEnum", "name": d["name"], "n": d["n"], "line": L})
            out[mark]["style"] = d.get("style", "unclear")
            out[mark]["words"] = d.get("words", [])
            _flatten(d["body"], out)
            out.append({"d": "closeEnum", "line": d.get("_eline", 0)})
            mark = len(out) - 1
        elif k == "efield":
            out.append({"d": "efield", "name": d["name"], "bits": bits_of(d["value"]), "line": L})
        else:
            raise ValueError(k)
        out[mark].setdefault("style", d.get("style", "unclear"))
        out[mark].setdefault("words", d.get("words", []))
    return out


def layout_of(text):
    """Layout tokens of every line: ["s", n] blanks, ["w", n] a word of n characters."""
    lines = []
    for line in text.split("\n"):
        toks, i = [], 0
        while i < len(line):
            j = i
            if line[i] == " ":
                while j < len(line) and line[j] == " ":
                    j += 1
                toks.append(["s", j - i])
            else:
                while j < len(line) and line[j] != " ":
                    j += 1
                toks.append(["w", j - i])
            i = j
        lines.append(toks)
    return lines


def spec_program(prog, trad=False):
    """Program JSON for CompilerTrace (call after the text was rendered: lines are known)."""
    names = list(prog["files"].keys())
    files = [{"name": n, "decls": flatten_decls(prog["files"][n], [])} for n in names]
    for f in files:
        txt = prog.get("_texts", {}).get(f["name"])
        if txt is not None:
            f["layout"] = layout_of(txt)
            f["kinds"] = ["b" if not l.strip() else "c" if l.strip().startswith("//") else "o" for l in txt.split("\n")]
            f["indent_ok"] = bool(prog.get("_indent_ok", True))
        f["prefix"] = prog.get("_prefix_words", {}).get(f["name"], [])
        f["base"] = f["name"]
    return {"files": files, "main": names.index(prog["main"]) + 1, "trad": bool(trad)}


# ---------------------------------------------------------------------------------------
# observing the real compiler
# ---------------------------------------------------------------------------------------

def file_key(path):
    return os.path.splitext(os.path.basename(path or ""))[0]


def observe_parse(main_path, trad=False, timeout_s=20, wall_backstop_s=900):
    """Parses in-process; returns (proto|None, outcome event).

    'never hangs' is observed as a limit on the CPU time the parse may use (ITIMER_VIRTUAL counts the
    process's user time only), so a loaded machine cannot turn a slow run into a verdict; a wall-clock
    backstop far above it ends a run that blocks without computing -- that is reported as a failure of
    the machinery, not as an outcome."""
    common.use_repo()
    from bitproto.errors import ParserError
    from bitproto.parser import parse
    import signal

    class _WallBackstop(Exception):
        pass

    def on_cpu(signum, frame):
        raise TimeoutError("parse used more than %ss of CPU time" % timeout_s)

    def on_wall(signum, frame):
        raise _WallBackstop()
    # the cyclic garbage collector runs inside whatever allocates: with millions of harness objects alive (the
    # thorough tier keeps tens of thousands of traces) one full collection costs seconds of CPU -- it must not be
    # charged to the parse that happened to trigger it
    import gc
    gc_was = gc.isenabled()
    gc.disable()
    old_v = signal.signal(signal.SIGVTALRM, on_cpu)
    old_a = signal.signal(signal.SIGALRM, on_wall)
    signal.setitimer(signal.ITIMER_VIRTUAL, timeout_s)
    signal.alarm(wall_backstop_s)
    try:
        try:
            proto = parse(main_path, traditional_mode=trad)
            return proto, {"ev": "Outcome", "outcome": "accepted", "what": "", "file": "", "line": 0}
        except ParserError as e:
            return None, {"ev": "Outcome", "outcome": "rejected", "what": type(e).__name__,
                          "file": file_key(e.filepath), "line": int(e.lineno or 0)}
        except TimeoutError:
            return None, {"ev": "Outcome", "outcome": "hang", "what": "timeout", "file": "", "line": 0}
        except _WallBackstop:
            raise common.MachineryError("parse of %s neither finished nor used %ss of CPU within %ss of wall time"
                                        % (main_path, timeout_s, wall_backstop_s))
        except OSError as e:
            return None, {"ev": "Outcome", "outcome": "oserror", "what": type(e).__name__, "file": "", "line": 0}
        except RecursionError as e:
            return None, {"ev": "Outcome", "outcome": "raise", "what": "RecursionError@parse", "file": "", "line": 0}
        except Exception as e:
            cls, where = drive.exc_signature(e)
            return None, {"ev": "Outcome", "outcome": "raise", "what": "%s@%s" % (cls, where), "file": "", "line": 0}
    finally:
        signal.setitimer(signal.ITIMER_VIRTUAL, 0)
        signal.alarm(0)
        signal.signal(signal.SIGVTALRM, old_v)
        signal.signal(signal.SIGALRM, old_a)
        if gc_was:
            gc.enable()


def all_protos(proto, acc=None, seen=None):
    acc = acc if acc is not None else []
    seen = seen if seen is not None else set()
    if id(proto) in seen:
        return acc
    seen.add(id(proto))
    acc.append(proto)
    for _, child in proto.protos(recursive=False):
        all_protos(child, acc, seen)
    return acc


def observe_accepted(proto, want=("msgs", "consts", "refs", "lines")):
    """Events describing what the parser resolved (messages, constants, references, lines)."""
    from bitproto._ast import Alias, Constant, Enum, Message, Proto
    evs = []
    refs = []
    for p in all_protos(proto):
        f = file_key(p.filepath)

        def walk(scope, path):
            for name, m in scope.members.items():
                if isinstance(m, Proto):
                    continue
                if isinstance(m, Message):
                    if "msgs" in want:
                        evs.append({"ev": "Msg", "file": f, "path": path + [name], "nbits": m.nbits(),
                                    "fields": [[fl.name, fl.number, fl.type.nbits()] for fl in m.fields()]})
                    if "lines" in want:
                        evs.append({"ev": "DefLine", "file": f, "path": path + [name], "line": m.lineno})
                    walk(m, path + [name])
                elif isinstance(m, Enum):
                    if "lines" in want:
                        evs.append({"ev": "DefLine", "file": f, "path": path + [name], "line": m.lineno})
                elif isinstance(m, Constant):
                    if "consts" in want and not path:
                        v = m.value
                        if isinstance(v, bool):
                            evs.append({"ev": "Const", "file": f, "name": name, "vt": "bool", "v": v})
                        elif isinstance(v, int):
                            if -2 ** 30 < v < 2 ** 30:
                                evs.append({"ev": "Const", "file": f, "name": name, "vt": "int", "v": v})
                        else:
                            evs.append({"ev": "Const", "file": f, "name": name, "vt": "str",
                                        "v": list(str(v).encode("utf8", "surrogatepass"))})
                    if "lines" in want:
                        evs.append({"ev": "DefLine", "file": f, "path": path + [name], "line": m.lineno})
                elif isinstance(m, Alias):
                    if "lines" in want:
                        evs.append({"ev": "DefLine", "file": f, "path": path + [name], "line": m.lineno})
        walk(p, [])
        for r in p.references:
            d = r.referenced_definition
            refs.append([f, int(r.lineno), r.token.split("."), file_key(getattr(d, "filepath", "")),
                         int(getattr(d, "lineno", 0))])
    if "refs" in want:
        evs.append({"ev": "Refs", "refs": refs})
    return evs
