"""A directed family for the 16-bit size / capacity prefix of extensible types: the prefix starts at
every bit offset r = 0..7 and announces values that use every one of its 16 bits.  Each case is a pair
(older program, newer program) related by one permitted evolution step (append fields to an extensible
message / grow an extensible array), so the older decoder has to read the large prefix and skip."""
from . import gen


def _u(n):
    return {"k": "uint", "n": n}


def _prog(decls, top_fields_te, top_fields_rt, nbits):
    body = [{"d": "field", "name": n, "num": k + 1, "t": te} for k, (n, te) in enumerate(top_fields_te)]
    rt = {"k": "msg", "name": "Top", "ext": False,
          "fields": [{"num": k + 1, "name": n, "t": t} for k, (n, t) in enumerate(top_fields_rt)]}
    return {"files": {"main": [{"d": "proto", "name": "main"}] + decls +
                      [{"d": "message", "name": "Top", "ext": False, "body": body}]},
            "order": ["main"], "main": "main", "top": "Top", "rtype": rt, "nbits": nbits}


def msg_pair(r, A):
    """Inner' is 17 bits in the older schema and exactly A bits (prefix included) in the newer one."""
    assert A >= 17 and r + A + 16 <= 65535

    def inner(big):
        body = [{"d": "field", "name": "a", "num": 1, "t": {"k": "bool"}}]
        fields = [{"num": 1, "name": "a", "t": {"k": "bool"}}]
        if big:
            payload = A - 17
            n64, rem = divmod(payload, 64)
            num = 2
            if n64:
                te = {"k": "array", "elem": _u(64), "cap": gen.lit(n64), "ext": False}
                body.append({"d": "field", "name": "big", "num": num, "t": te})
                fields.append({"num": num, "name": "big",
                               "t": {"k": "array", "ext": False, "cap": n64, "elem": _u(64), "_texpr": te}})
                num += 1
            if rem:
                body.append({"d": "field", "name": "fill", "num": num, "t": _u(rem)})
                fields.append({"num": num, "name": "fill", "t": _u(rem)})
        decl = {"d": "message", "name": "Inner", "ext": True, "body": body}
        return decl, {"k": "msg", "name": "Inner", "ext": True, "fields": fields, "_decl": decl}

    out = []
    for big in (False, True):
        decl, rt = inner(big)
        te, rts = [], []
        if r:
            te.append(("pad", _u(r)))
            rts.append(("pad", _u(r)))
        te += [("inner", gen.tref(["Inner"])), ("crc", _u(16))]
        rts += [("inner", rt), ("crc", _u(16))]
        out.append(_prog([decl], te, rts, r + (A if big else 17) + 16))
    return out[0], out[1], [("append-fields", "Inner' grows from 17 to %d bits, prefix at bit offset %d" % (A, r))]


def arr_pair(r, A):
    """bool[1]' in the older schema, bool[A]' in the newer one: the prefix announces capacity A."""
    assert 1 <= A and r + 16 + A + 16 <= 65535
    out = []
    for cap in (1, A):
        ate = {"k": "array", "elem": {"k": "bool"}, "cap": gen.lit(cap), "ext": True}
        art = {"k": "array", "ext": True, "cap": cap, "elem": {"k": "bool"}, "_texpr": ate}
        te, rts = [], []
        if r:
            te.append(("pad", _u(r)))
            rts.append(("pad", _u(r)))
        te += [("arr", ate), ("crc", _u(16))]
        rts += [("arr", art), ("crc", _u(16))]
        out.append(_prog([], te, rts, r + 16 + cap + 16))
    return out[0], out[1], [("grow-array", "bool[1]' grows to capacity %d, prefix at bit offset %d" % (A, r))]


def family(tier):
    """(kind, r, A) triples: every offset, prefix values with a single high bit and with many bits set."""
    out = []
    for r in range(8):
        edge = 1 << (16 - r) if r else 1 << 15      # the smallest value whose top bit lies in the third byte
        if tier == "quick":
            msgA = sorted({edge // 2 + 1, min(edge, 32768), 0x5A5A + r, 65000})
            arrA = sorted({min(edge, 2048), 0x2A5})
        else:
            msgA = sorted({1 << k for k in range(5, 16)} | {edge // 2 + 1, 0x5A5A + r, 0xA5A5 + r, 65000, 65535 - 16 - r})
            arrA = sorted({1 << k for k in range(1, 13)} | {0x2A5, 0x1555})
        out += [("msg", r, a) for a in msgA if a >= 17 and r + a + 16 <= 65535]
        out += [("arr", r, a) for a in arrA]
    return out
