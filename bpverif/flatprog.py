"""Flat declaration lists (the form Compiler.tla consumes) as a text source: rendering them back to
.bitproto text, and declaration-level mutations (Mutate of DESIGN.md section 3.5)."""
import copy

from . import prog as P


def flat_files(pr):
    """{file: [flat decls]} of a nested abstract program (lines still unknown)."""
    return {name: P.flatten_decls(decls, []) for name, decls in pr["files"].items()}


def _esc(bs):
    out = ""
    for b in bytes(bs).decode("utf8", "replace"):
        out += {'"': '\\"', "\\": "\\\\", "\n": "\\n", "\t": "\\t", "\r": "\\r"}.get(b, b)
    return out


def val_text(v):
    k = v["e"]
    if k == "bool":
        return "true" if v["v"] else "false"
    if k == "str":
        return '"%s"' % _esc(v["s"])
    if k == "ref":
        return ".".join(v["path"])
    parts = []
    for t in v["toks"]:
        parts.append({"int": lambda: str(t[1]), "ref": lambda: ".".join(t[1]), "op": lambda: t[1],
                      "lp": lambda: "(", "rp": lambda: ")"}[t[0]]())
    return " ".join(parts)


def te_text(t):
    k = t["k"]
    if k in ("bool", "byte"):
        return k
    if k in ("uint", "int"):
        return "%s%d" % (k, t["n"])
    if k == "ref":
        return ".".join(t["path"])
    cap = str(t["cap"]["v"]) if t["cap"]["e"] == "int" else ".".join(t["cap"]["path"])
    return "%s[%s]%s" % (te_text(t["elem"]), cap, "'" if t["ext"] else "")


def bits_value(bits):
    return sum(b << i for i, b in enumerate(bits))


def render_flat(decls):
    """Text of one file; sets d['line'] on every declaration."""
    out = []
    depth = 0
    for d in decls:
        k = d["d"]
        if k in ("closeMsg", "closeEnum"):
            depth = max(0, depth - 1)
        pad = "    " * depth
        d["line"] = len(out) + 1
        if k == "proto":
            out.append("%sproto %s" % (pad, d["name"]))
        elif k == "import":
            out.append('%simport %s"%s.bitproto"' % (pad, (d["as"] + " ") if d["as"] else "", d["file"]))
        elif k == "option":
            out.append("%soption %s = %s" % (pad, d["name"], val_text(d["v"])))
        elif k == "const":
            out.append("%sconst %s = %s" % (pad, d["name"], val_text(d["v"])))
        elif k == "alias":
            out.append("%stype %s = %s" % (pad, d["name"], te_text(d["t"])))
        elif k == "openMsg":
            out.append("%smessage %s%s {" % (pad, d["name"], "'" if d["ext"] else ""))
            depth += 1
        elif k == "openEnum":
            out.append("%senum %s : uint%d {" % (pad, d["name"], d["n"]))
            depth += 1
        elif k in ("closeMsg", "closeEnum"):
            out.append(pad + "}")
        elif k == "field":
            out.append("%s%s %s = %d" % (pad, te_text(d["t"]), d["name"], d["num"]))
        elif k == "efield":
            out.append("%s%s = %d" % (pad, d["name"], bits_value(d["bits"])))
        else:
            raise ValueError(k)
    return "\n".join(out) + "\n"


def mutate(files, rng, nedits=1):
    """Declaration-level edits: drop / duplicate / swap / move (also across files and scopes)."""
    fs = copy.deepcopy(files)
    names = list(fs)
    notes = []
    for _ in range(nedits):
        f = rng.choice(names)
        ds = fs[f]
        if not ds:
            continue
        op = rng.choice(["drop", "dup", "swap", "move", "drop-close", "dup-open"])
        i = rng.randrange(len(ds))
        if op == "drop":
            notes.append("drop %s" % ds[i]["d"])
            del ds[i]
        elif op == "dup":
            notes.append("dup %s" % ds[i]["d"])
            ds.insert(rng.randrange(len(ds) + 1), copy.deepcopy(ds[i]))
        elif op == "swap" and len(ds) >= 2:
            j = rng.randrange(len(ds))
            ds[i], ds[j] = ds[j], ds[i]
            notes.append("swap %s/%s" % (ds[i]["d"], ds[j]["d"]))
        elif op == "move":
            d = ds.pop(i)
            g = rng.choice(names)
            fs[g].insert(rng.randrange(len(fs[g]) + 1), d)
            notes.append("move %s" % d["d"])
        elif op == "drop-close":
            cl = [k for k, d in enumerate(ds) if d["d"] in ("closeMsg", "closeEnum")]
            if cl:
                del ds[rng.choice(cl)]
                notes.append("drop close")
        elif op == "dup-open":
            op_ = [k for k, d in enumerate(ds) if d["d"] in ("openMsg", "openEnum")]
            if op_:
                k = rng.choice(op_)
                ds.insert(k, copy.deepcopy(ds[k]))
                notes.append("dup open")
    return fs, notes
