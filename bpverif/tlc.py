"""Running TLC and reading back what it decided."""
import json
import os
import re
import shutil
import subprocess
import tempfile
import time

from . import common

JAVA_CP = "/opt/veriftools/tla/tla2tools.jar:/opt/veriftools/tla/CommunityModules-deps.jar"


class TlcResult:
    def __init__(self):
        self.rc = None
        self.out = ""
        self.states = 0          # distinct states
        self.generated = 0       # states generated (transitions taken)
        self.depth = 0
        self.ok = False          # "No error has been found"
        self.violated = []       # names of violated invariants / properties
        self.wall = 0.0
        self.lines = []          # payloads of PrintT lines
        self.coverage = {}


def run_tlc(module, cfg, env=None, workers=16, timeout=3600, simulate=None, extra=None,
            heap="8g", coverage=False, seed=None):
    """Runs TLC on spec/<module>.tla with spec/<cfg>; returns TlcResult."""
    meta = tempfile.mkdtemp(prefix="bpverif-tlc-", dir=os.environ.get("TMPDIR", "/tmp"))
    # java.io.tmpdir: TLC unpacks its standard modules into a fresh directory per run; keep it inside the metadir
    cmd = ["java", "-Djava.io.tmpdir=" + meta, "-XX:+UseParallelGC", "-Xmx" + heap, "-Xss64m", "-cp", JAVA_CP, "tlc2.TLC",
           "-workers", str(workers), "-metadir", meta, "-noGenerateSpecTE",
           "-config", cfg]
    if simulate:
        cmd += ["-simulate", simulate]
    if seed is not None:
        cmd += ["-seed", str(seed)]
    if coverage:
        cmd += ["-coverage", "1"]
    if extra:
        cmd += list(extra)
    cmd.append(module if module.endswith(".tla") else module + ".tla")
    e = dict(os.environ)
    if env:
        e.update({k: str(v) for k, v in env.items()})
    r = TlcResult()
    t0 = time.time()
    try:
        p = subprocess.run(cmd, cwd=common.SPEC, env=e, capture_output=True, text=True,
                           timeout=timeout)
        r.rc = p.returncode
        r.out = p.stdout + p.stderr
    except subprocess.TimeoutExpired as ex:
        r.rc = -9
        r.out = (ex.stdout or b"").decode("utf8", "replace") if isinstance(ex.stdout, bytes) else (ex.stdout or "")
        r.out += "\n[bpverif] TLC timed out after %ss\n" % timeout
    finally:
        shutil.rmtree(meta, ignore_errors=True)
    r.wall = time.time() - t0
    parse_output(r)
    return r


_PAY = re.compile(r'^"((?:[^"\\]|\\.)*)"$')


def parse_output(r):
    for line in r.out.splitlines():
        m = _PAY.match(line.strip())
        if m:
            s = m.group(1)
            if "\\" in s:
                try:
                    s = bytes(s, "utf8").decode("unicode_escape")
                except Exception:
                    pass
            r.lines.append(s)
        m = re.match(r"^(\d+) states generated, (\d+) distinct states found", line)
        if m:
            r.generated = int(m.group(1))
            r.states = int(m.group(2))
        m = re.match(r"^The depth of the complete state graph search is (\d+)", line)
        if m:
            r.depth = int(m.group(1))
        if "No error has been found" in line:
            r.ok = True
        m = re.match(r"^Error: Invariant (\S+) is violated", line)
        if m:
            r.violated.append(m.group(1))
        m = re.match(r"^Error: Action property (\S+) is violated", line)
        if m:
            r.violated.append(m.group(1))
        if "Temporal properties were violated" in line:
            r.violated.append("temporal")
        m = re.match(r"^<(\w+) line \d+, col \d+ to line \d+, col \d+ of module (\w+)>: (\d+):(\d+)", line)
        if m:
            r.coverage[m.group(2) + "!" + m.group(1)] = int(m.group(4))
    return r


def machinery_check(r, what):
    """TLC must have finished cleanly or with a genuine property violation."""
    if r.ok or r.violated:
        return
    tail = "\n".join(r.out.splitlines()[-40:])
    raise common.MachineryError("TLC failed on %s (rc=%s):\n%s" % (what, r.rc, tail))


MAX_BATCH_BYTES = int(os.environ.get("BPVERIF_MAX_BATCH", 24 * 1024 * 1024))     # one JSON document per TLC run; larger batches are split


def _validate_chunk(module, cfg, blobs, extra_batch, workers, timeout, keep):
    fd, path = tempfile.mkstemp(prefix="bpverif-traces-", suffix=".json",
                                dir=os.environ.get("TMPDIR", "/tmp"))
    os.close(fd)
    try:
        with open(path, "w") as f:
            f.write('{"traces":[')
            f.write(",".join(blobs))
            f.write("]")
            for k, v in (extra_batch or {}).items():
                f.write(",%s:%s" % (json.dumps(k), json.dumps(v, separators=(",", ":"))))
            f.write("}")
        r = run_tlc(module, cfg, env={"TRACE_FILE": path}, workers=workers, timeout=timeout)
        if keep:
            shutil.copy(path, keep)
    finally:
        if os.path.exists(path):
            os.remove(path)
    machinery_check(r, module)
    return r


def validate_traces(module, cfg, traces, extra_batch=None, workers=16, timeout=3600, keep=None):
    """Writes the traces in batches, runs the trace spec on each, returns (verdicts, TlcResult).

    verdicts[k] = (ok: bool, why: str) for trace k (0-based).  A missing verdict is a
    machinery failure, never a pass.  The returned TlcResult sums the runs; the trace numbers in
    its V| and R| lines are those of the whole list."""
    blobs = [json.dumps(t, separators=(",", ":")) for t in traces]
    chunks, cur, size = [], [], 0
    for k, b in enumerate(blobs):
        if cur and size + len(b) > MAX_BATCH_BYTES:
            chunks.append(cur)
            cur, size = [], 0
        cur.append(k)
        size += len(b)
    if cur or not chunks:
        chunks.append(cur)
    total = TlcResult()
    total.ok = True
    verdicts = {}
    for idxs in chunks:
        r = _validate_chunk(module, cfg, [blobs[k] for k in idxs], extra_batch, workers, timeout, keep)
        total.rc = r.rc
        total.out += r.out
        total.states += r.states
        total.generated += r.generated
        total.depth = max(total.depth, r.depth)
        total.ok = total.ok and r.ok
        total.violated += r.violated
        total.wall += r.wall
        for name, n in r.coverage.items():
            total.coverage[name] = total.coverage.get(name, 0) + n
        got = 0
        for s in r.lines:
            if s.startswith("V|") or s.startswith("R|"):
                parts = s.split("|", 2)
                g = idxs[int(parts[1]) - 1]
                s = "%s|%d|%s" % (parts[0], g + 1, parts[2])
                if parts[0] == "V":
                    rest = parts[2].split("|", 1)
                    verdicts[g] = (rest[0] == "1", rest[1] if len(rest) > 1 else "")
                    got += 1
            total.lines.append(s)
        if got != len(idxs):
            missing = [k for k in idxs if k not in verdicts][:5]
            tail = "\n".join(r.out.splitlines()[-30:])
            raise common.MachineryError("%s: %d verdicts for %d traces (missing e.g. %s)\n%s"
                                        % (module, got, len(idxs), missing, tail))
    return [verdicts[k] for k in range(len(traces))], total
