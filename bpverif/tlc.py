"""Running TLC and reading back what it decided."""
import json
import os
import re
import shutil
import subprocess
import tempfile
import time

from . import common

JAVA_CP = "/opt/veriftools/tla/tla2tools.jar:/opt/veriftools/tla/CommunityModules-deps.jar"


class TlcResult:
    def __init__(self):
        self.rc = None
        self.out = ""
        self.states = 0          # distinct states
        self.generated = 0       # states generated (transitions taken)
        self.depth = 0
        self.ok = False          # "No error has been found"
        self.violated = []       # names of violated invariants / properties
        self.wall = 0.0
        self.lines = []          # payloads of PrintT lines
        self.coverage = {}


def run_tlc(module, cfg, env=None, workers=16, timeout=3600, simulate=None, extra=None,
            heap="8g", coverage=False, seed=None):
    """Runs TLC on spec/<module>.tla with spec/<cfg>; returns TlcResult."""
    meta = tempfile.mkdtemp(prefix="bpverif-tlc-", dir=os.environ.get("TMPDIR", "/tmp"))
    cmd = ["java", "-XX:+UseParallelGC", "-Xmx" + heap, "-Xss64m", "-cp", JAVA_CP, "tlc2.TLC",
           "-workers", str(workers), "-metadir", meta, "-noGenerateSpecTE",
           "-config", cfg]
    if simulate:
        cmd += ["-simulate", simulate]
    if seed is not None:
        cmd += ["-seed", str(seed)]
    if coverage:
        cmd += ["-coverage", "1"]
    if extra:
        cmd += list(extra)
    cmd.append(module if module.endswith(".tla") else module + ".tla")
    e = dict(os.environ)
    if env:
        e.update({k: str(v) for k, v in env.items()})
    r = TlcResult()
    t0 = time.time()
    try:
        p = subprocess.run(cmd, cwd=common.SPEC, env=e, capture_output=True, text=True,
                           timeout=timeout)
        r.rc = p.returncode
        r.out = p.stdout + p.stderr
    except subprocess.TimeoutExpired as ex:
        r.rc = -9
        r.out = (ex.stdout or b"").decode("utf8", "replace") if isinstance(ex.stdout, bytes) else (ex.stdout or "")
        r.out += "\n[bpverif] TLC timed out after %ss\n" % timeout
    finally:
        shutil.rmtree(meta, ignore_errors=True)
    r.wall = time.time() - t0
    parse_output(r)
    return r


_PAY = re.compile(r'^"((?:[^"\\]|\\.)*)"$')


def parse_output(r):
    for line in r.out.splitlines():
        m = _PAY.match(line.strip())
        if m:
            s = m.group(1)
            if "\\" in s:
                try:
                    s = bytes(s, "utf8").decode("unicode_escape")
                except Exception:
                    pass
            r.lines.append(s)
        m = re.match(r"^(\d+) states generated, (\d+) distinct states found", line)
        if m:
            r.generated = int(m.group(1))
            r.states = int(m.group(2))
        m = re.match(r"^The depth of the complete state graph search is (\d+)", line)
        if m:
            r.depth = int(m.group(1))
        if "No error has been found" in line:
            r.ok = True
        m = re.match(r"^Error: Invariant (\S+) is violated", line)
        if m:
            r.violated.append(m.group(1))
        m = re.match(r"^Error: Action property (\S+) is violated", line)
        if m:
            r.violated.append(m.group(1))
        if "Temporal properties were violated" in line:
            r.violated.append("temporal")
        m = re.match(r"^<(\w+) line \d+, col \d+ to line \d+, col \d+ of module (\w+)>: (\d+):(\d+)", line)
        if m:
            r.coverage[m.group(2) + "!" + m.group(1)] = int(m.group(4))
    return r


def machinery_check(r, what):
    """TLC must have finished cleanly or with a genuine property violation."""
    if r.ok or r.violated:
        return
    tail = "\n".join(r.out.splitlines()[-40:])
    raise common.MachineryError("TLC failed on %s (rc=%s):\n%s" % (what, r.rc, tail))


def validate_traces(module, cfg, traces, extra_batch=None, workers=16, timeout=3600, keep=None):
    """Writes a batch of traces, runs the trace spec, returns (verdicts, TlcResult).

    verdicts[k] = (ok: bool, why: str) for trace k (0-based).  A missing verdict is a
    machinery failure, never a pass."""
    fd, path = tempfile.mkstemp(prefix="bpverif-traces-", suffix=".json",
                                dir=os.environ.get("TMPDIR", "/tmp"))
    os.close(fd)
    batch = {"traces": traces}
    if extra_batch:
        batch.update(extra_batch)
    try:
        with open(path, "w") as f:
            json.dump(batch, f, separators=(",", ":"))
        r = run_tlc(module, cfg, env={"TRACE_FILE": path}, workers=workers, timeout=timeout)
        if keep:
            shutil.copy(path, keep)
    finally:
        if os.path.exists(path):
            os.remove(path)
    machinery_check(r, module)
    verdicts = {}
    for s in r.lines:
        if s.startswith("V|"):
            parts = s.split("|", 3)
            verdicts[int(parts[1]) - 1] = (parts[2] == "1", parts[3] if len(parts) > 3 else "")
    if len(verdicts) != len(traces):
        missing = [k for k in range(len(traces)) if k not in verdicts][:5]
        tail = "\n".join(r.out.splitlines()[-30:])
        raise common.MachineryError("%s: %d verdicts for %d traces (missing e.g. %s)\n%s"
                                    % (module, len(verdicts), len(traces), missing, tail))
    return [verdicts[k] for k in range(len(traces))], r
