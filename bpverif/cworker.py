"""Child process that loads generated shared objects and calls the C API through ctypes.

Protocol: one JSON job per line on stdin, one JSON result per line on stdout.  The worker is
deliberately dumb: memory images and wire buffers travel as hex; it knows nothing of schemas.
If generated code faults, this process dies with the signal and the parent records a Fault.

job = {"so": path, "enc": name, "dec": name, "json": name|null, "sizeof": n, "buflen": n,
       "guard": "none"|"high"|"low", "ops": [["enc", memhex] | ["dec", bufhex] | ["json", memhex]]}
"""
import ctypes
import ctypes.util
import json
import sys

libc = ctypes.CDLL(ctypes.util.find_library("c") or "libc.so.6", use_errno=True)
libc.mmap.restype = ctypes.c_void_p
libc.mmap.argtypes = [ctypes.c_void_p, ctypes.c_size_t, ctypes.c_int, ctypes.c_int, ctypes.c_int, ctypes.c_long]
libc.mprotect.argtypes = [ctypes.c_void_p, ctypes.c_size_t, ctypes.c_int]
libc.munmap.argtypes = [ctypes.c_void_p, ctypes.c_size_t]
PAGE = 4096
PROT_NONE, PROT_RW = 0, 3
MAP_PRIVATE_ANON = 0x02 | 0x20


class Guarded:
    """n usable bytes placed flush against an inaccessible page (above: 'high', below: 'low')."""

    def __init__(self, n, mode):
        self.n = n
        npages = (max(n, 1) + PAGE - 1) // PAGE
        self.total = (npages + 2) * PAGE
        base = libc.mmap(None, self.total, PROT_RW, MAP_PRIVATE_ANON, -1, 0)
        if base in (None, ctypes.c_void_p(-1).value):
            raise OSError("mmap failed")
        self.base = base
        libc.mprotect(ctypes.c_void_p(base), PAGE, PROT_NONE)
        libc.mprotect(ctypes.c_void_p(base + (npages + 1) * PAGE), PAGE, PROT_NONE)
        if mode == "high":
            self.addr = base + (npages + 1) * PAGE - n
        else:
            self.addr = base + PAGE
        # canary fill of the slack inside the accessible pages
        ctypes.memset(ctypes.c_void_p(base + PAGE), 0xA5, npages * PAGE)
        self.lo = base + PAGE
        self.hi = base + (npages + 1) * PAGE

    def slack_ok(self):
        before = ctypes.string_at(self.lo, self.addr - self.lo)
        after = ctypes.string_at(self.addr + self.n, self.hi - (self.addr + self.n))
        return before == b"\xA5" * len(before) and after == b"\xA5" * len(after)

    def free(self):
        libc.munmap(ctypes.c_void_p(self.base), self.total)


class Plain:
    def __init__(self, n, mode):
        self.n = n
        self.pad = 64
        self.buf = ctypes.create_string_buffer(b"\xA5" * (n + 2 * self.pad), n + 2 * self.pad)
        self.addr = ctypes.addressof(self.buf) + self.pad

    def slack_ok(self):
        raw = self.buf.raw
        return raw[:self.pad] == b"\xA5" * self.pad and raw[self.pad + self.n:] == b"\xA5" * self.pad

    def free(self):
        pass


def run_copies(job):
    """Direct calls of BpCopyBufferBits(n, dst, src, di, si) on exact-size guarded buffers."""
    lib = ctypes.CDLL(job["so"])
    f = lib.BpCopyBufferBits
    f.restype = None
    f.argtypes = [ctypes.c_int, ctypes.c_void_p, ctypes.c_void_p, ctypes.c_int, ctypes.c_int]
    out = []
    mk = Plain if job.get("guard", "none") == "none" else Guarded
    for n, di, si, srchex, dsthex in job["copies"]:
        src = bytes.fromhex(srchex)
        dst = bytes.fromhex(dsthex)
        a = mk(len(src), job.get("guard"))
        b = mk(len(dst), job.get("guard"))
        try:
            ctypes.memmove(a.addr, src, len(src))
            ctypes.memmove(b.addr, dst, len(dst))
            f(n, b.addr, a.addr, di, si)
            out.append({"dst": ctypes.string_at(b.addr, len(dst)).hex(),
                        "src_unchanged": ctypes.string_at(a.addr, len(src)) == src,
                        "slack": a.slack_ok() and b.slack_ok()})
        finally:
            a.free()
            b.free()
    return out


def run(job):
    if "copies" in job:
        return run_copies(job)
    lib = ctypes.CDLL(job["so"])
    fenc = getattr(lib, job["enc"])
    fdec = getattr(lib, job["dec"])
    fjson = getattr(lib, job["json"]) if job.get("json") else None
    for f in (fenc, fdec, fjson):
        if f is not None:
            f.restype = ctypes.c_int
            f.argtypes = [ctypes.c_void_p, ctypes.c_void_p]
    size, buflen = job["sizeof"], job["buflen"]
    mk = Plain if job.get("guard", "none") == "none" else Guarded
    out = []
    for op in job["ops"]:
        kind = op[0]
        m = mk(size, job.get("guard"))
        b = mk(buflen, job.get("guard"))
        try:
            if kind == "enc":
                ctypes.memmove(m.addr, bytes.fromhex(op[1]), size)
                ctypes.memset(b.addr, 0, buflen)
                fenc(m.addr, b.addr)
                out.append({"buf": ctypes.string_at(b.addr, buflen).hex(),
                            "mem": ctypes.string_at(m.addr, size).hex(),
                            "slack": m.slack_ok() and b.slack_ok()})
            elif kind == "dec":
                ctypes.memset(m.addr, 0, size)
                raw = bytes.fromhex(op[1])
                ctypes.memmove(b.addr, raw, buflen)
                fdec(m.addr, b.addr)
                out.append({"mem": ctypes.string_at(m.addr, size).hex(),
                            "buf_unchanged": ctypes.string_at(b.addr, buflen) == raw[:buflen],
                            "slack": m.slack_ok() and b.slack_ok()})
            elif kind == "json":
                ctypes.memmove(m.addr, bytes.fromhex(op[1]), size)
                cap = op[2]
                txt = ctypes.create_string_buffer(cap + 64)
                n = fjson(m.addr, ctypes.addressof(txt))
                out.append({"text": txt.raw[:max(0, min(n, cap))].decode("latin1"), "n": n,
                            "slack": m.slack_ok()})
        finally:
            m.free()
            b.free()
    return out


def main():
    for line in sys.stdin:
        line = line.strip()
        if not line:
            continue
        job = json.loads(line)
        try:
            res = {"ok": True, "results": run(job)}
        except Exception as e:  # loader errors etc.
            res = {"ok": False, "error": "%s: %s" % (type(e).__name__, e)}
        sys.stdout.write(json.dumps(res) + "\n")
        sys.stdout.flush()


if __name__ == "__main__":
    main()
