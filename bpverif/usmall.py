"""Direction spec -> code for the codec: the complete universe U_small as TLC writes it
(MC_CodecDump), turned into programs and values the real compiler and runtimes are driven over."""
import json
import os

from . import common, gen, tlc


def dump(depth, caps, leafset, evo=0, timeout=3000):
    """Rows {t, vs, evo}: a schema, its basis values (bit vectors), its evolutions (types)."""
    from .checks import designlevel as dl
    cfg = "\n".join([
        "INIT DInit", "NEXT DNext", "CONSTANTS",
        "  Depth = %d" % depth,
        "  Caps = {%s}" % ", ".join(str(c) for c in caps),
        '  LeafSet = "%s"' % leafset,
        "  EvoSteps = %d" % evo,
        '  Modes = {"enc"}', "  RawPad = 0", '  SkipVariant = "observed"',
        "CHECK_DEADLOCK FALSE"]) + "\n"
    r = dl.run_cfg("MC_CodecDump", cfg, timeout=timeout, workers=1)
    tlc.machinery_check(r, "MC_CodecDump")
    rows = [json.loads(s[2:]) for s in r.lines if s.startswith("U|")]
    if not rows:
        raise common.MachineryError("MC_CodecDump printed no schema")
    return rows, r


def enum_values(n):
    """Members an n-bit enum needs so that every basis value is a member."""
    return sorted({0, (1 << n) - 1} | {1 << i for i in range(n)})


def prog_of_type(t):
    """A program declaring the spec type t (names made unique; definitions precede their uses)."""
    decls = []
    counter = {"M": 0, "T": 0, "E": 0}
    enums = {}

    def fresh(k):
        counter[k] += 1
        return "%s%d" % ({"M": "Msg", "T": "Ty", "E": "En"}[k], counter[k])

    def build(x, top=False):
        """returns (type expression, harness rtype)"""
        k = x["k"]
        if k in ("bool", "byte"):
            return {"k": k}, {"k": k}
        if k in ("uint", "int"):
            return {"k": k, "n": x["n"]}, {"k": k, "n": x["n"]}
        if k == "enum":
            n = x["n"]
            if n not in enums:
                name = fresh("E")
                vals = enum_values(n)
                body = [{"d": "efield", "name": "%s_V%d" % (name.upper(), i), "value": v} for i, v in enumerate(vals)]
                decls.append({"d": "enum", "name": name, "n": n, "body": body})
                enums[n] = {"k": "enum", "n": n, "name": name, "_vals": vals, "_default": vals[0]}
            return gen.tref([enums[n]["name"]]), dict(enums[n])
        if k == "alias":
            te, rt = build(x["to"])
            name = fresh("T")
            decls.append({"d": "alias", "name": name, "t": te})
            return gen.tref([name]), {"k": "alias", "name": name, "to": rt}
        if k == "array":
            te, rt = build(x["elem"])
            ate = {"k": "array", "elem": te, "cap": gen.lit(x["cap"]), "ext": x["ext"]}
            return ate, {"k": "array", "ext": x["ext"], "cap": x["cap"], "elem": rt, "_texpr": ate}
        body, fields = [], []
        for f in x["fields"]:
            te, rt = build(f["t"])
            body.append({"d": "field", "name": f["name"], "num": f["num"], "t": te})
            fields.append({"num": f["num"], "name": f["name"], "t": rt})
        name = "Top" if top else fresh("M")
        decl = {"d": "message", "name": name, "ext": x["ext"], "body": body}
        decls.append(decl)
        return gen.tref([name]), {"k": "msg", "name": name, "ext": x["ext"], "fields": fields, "_decl": decl}

    _, rt = build(t, top=True)
    return {"files": {"main": [{"d": "proto", "name": "main"}] + decls}, "order": ["main"], "main": "main",
            "top": "Top", "rtype": rt, "nbits": None}


def value_of_bits(t, bv):
    """Spec value (nested bit vectors, least significant bit first) -> harness value tree of ints."""
    k = t["k"]
    if k == "alias":
        return value_of_bits(t["to"], bv)
    if k == "array":
        return [value_of_bits(t["elem"], x) for x in bv]
    if k == "msg":
        return [value_of_bits(f["t"], x) for f, x in zip(t["fields"], bv)]
    n = len(bv)
    u = sum(b << i for i, b in enumerate(bv))
    if k == "int" and n and bv[-1]:
        return u - (1 << n)
    if k == "bool":
        return bool(u)
    return u


def bounds(tier):
    """The universes replayed per tier: (depth, caps, leafset)."""
    if tier == "quick":
        return [(1, (1, 2), "small")]
    return [(1, (1, 2, 5), "wide"), (2, (1, 2), "tiny")]


def programs(rep, tier, label):
    """Yields (index, program, values) for every schema of the tier's universes; records the TLC runs."""
    k = 0
    for depth, caps, leafset in bounds(tier):
        rows, r = dump(depth, caps, leafset)
        rep.add_tlc(r, "spec->code:U_small written by TLC (depth %d, caps %s, leaf set %s): %d schemas, %d values, "
                       "driven through %s" % (depth, list(caps), leafset, len(rows), sum(len(x["vs"]) for x in rows), label),
                    constants={"Depth": depth, "Caps": list(caps), "LeafSet": leafset})
        info = rep.cov.setdefault("u_small_replay", [])
        info.append({"depth": depth, "caps": list(caps), "leaf_set": leafset, "schemas": len(rows),
                     "values": sum(len(x["vs"]) for x in rows)})
        for row in rows:
            prog = prog_of_type(row["t"])
            vals = [value_of_bits(prog["rtype"], bv) for bv in row["vs"]]
            yield k, prog, vals
            k += 1
