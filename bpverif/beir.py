"""A big-endian host without one: every C source is compiled by clang for a big-endian LP64 target (powerpc64) at
-O0 into LLVM IR -- so the preprocessor sees __BYTE_ORDER__ == __ORDER_BIG_ENDIAN__ and lib/c/bitproto.c selects its
big-endian paths by itself --, every 16/32/64-bit integer load and store of that IR is wrapped in llvm.bswap, the
module is retargeted to the x86-64 host and linked natively.  The resulting shared object has big-endian memory
semantics for all integer objects, including the runtime's own temporaries (the 16-bit prefix, the sign fix-up),
which the -DBP_BIG_ENDIAN build on a little-endian host cannot give.  (The idea is from the demonstration of the
seeded change C06-e.)  Struct layouts of the two LP64 ABIs agree for the generated structs (integers of 1..8 bytes,
bool, arrays, nested structs), so a natively compiled offsetof/sizeof probe is linked in unchanged.

usage: beir.py --out lib.so [--inc dir ...] [--def NAME ...] [--native file.c ...] source.c ...
exit status 0: built; 3: a construct the rewriting does not handle (tooling, never a verdict); else compiler error."""
import os
import re
import subprocess
import sys
import tempfile

HOST_DATALAYOUT = ('target datalayout = "e-m:e-p270:32:32-p271:32:32-p272:64:64-'
                   'i64:64-f80:128-n8:16:32:64-S128"')
HOST_TRIPLE = 'target triple = "x86_64-pc-linux-gnu"'
RE_LOAD = re.compile(r"^(\s*)(%[\w.]+) = load (volatile )?(i16|i32|i64), (.*)$")
RE_STORE = re.compile(r"^(\s*)store (volatile )?(i16|i32|i64) ([^,()]+), (.*)$")
STUBS = {
    "stdio.h": "#include <stdarg.h>\n#include <stddef.h>\nint printf(const char *fmt, ...);\n"
               "int sprintf(char *s, const char *fmt, ...);\nint vsprintf(char *s, const char *fmt, va_list ap);\n"
               "int snprintf(char *s, size_t n, const char *fmt, ...);\n"
               "int vsnprintf(char *s, size_t n, const char *fmt, va_list ap);\n",
    "inttypes.h": "#include <stdint.h>\n",
    "string.h": "#include <stddef.h>\nvoid *memset(void *s, int c, size_t n);\nvoid *memcpy(void *d, const void *s, size_t n);\n"
                "void *memmove(void *d, const void *s, size_t n);\nsize_t strlen(const char *s);\n",
    "stdlib.h": "#include <stddef.h>\nvoid *malloc(size_t n);\nvoid free(void *p);\n",
}


class Tooling(Exception):
    pass


def swap_global_constants(line):
    """Byte-swaps the i16/i32/i64 constants of a global's initializer, leaving constant expressions
    (getelementptr indices and the like, inside parentheses) and the trailing attributes alone."""
    out, depth, i = [], 0, 0
    # the initializer ends at ", align N" / ", section" ... : constants there are not data
    tail = re.search(r", (align|section|comdat|!dbg)\b", line)
    end = tail.start() if tail else len(line)
    pat = re.compile(r"\b(i16|i32|i64) (-?\d+)\b")
    while i < end:
        ch = line[i]
        if ch == "(":
            depth += 1
        elif ch == ")":
            depth -= 1
        m = pat.match(line, i) if depth == 0 and (i == 0 or not (line[i - 1].isalnum() or line[i - 1] in "_.%@")) else None
        if m:
            ty, v = m.group(1), int(m.group(2))
            nb = int(ty[1:]) // 8
            u = v & ((1 << (8 * nb)) - 1)
            sw = int.from_bytes(u.to_bytes(nb, "little"), "big")
            out.append("%s %d" % (ty, sw))
            i = m.end()
            continue
        out.append(ch)
        i += 1
    return "".join(out) + line[end:]


def to_host(text):
    out, n, used = [], 0, set()
    for line in text.splitlines():
        if line.startswith("target datalayout"):
            if '"E-' not in line:
                raise Tooling("expected a big-endian data layout: " + line)
            out.append(HOST_DATALAYOUT)
            continue
        if line.startswith("target triple"):
            out.append(HOST_TRIPLE)
            continue
        if line.startswith("attributes #"):
            line = re.sub(r'"target-(cpu|features)"="[^"]*"', "", line)
        if line.startswith("@") and re.search(r"\b(i16|i32|i64) -?\d", line):
            # a global with integer constants in its initializer (clang keeps the initializers of local
            # structs there): its bytes must read big-endian, so the constants are stored byte-swapped
            line = swap_global_constants(line)
        m = RE_LOAD.match(line)
        if m:
            ind, dst, vol, ty, rest = m.groups()
            n += 1
            out.append("%s%%be.raw.%d = load %s%s, %s" % (ind, n, vol or "", ty, rest))
            out.append("%s%s = call %s @llvm.bswap.%s(%s %%be.raw.%d)" % (ind, dst, ty, ty, ty, n))
            used.add(ty)
            continue
        m = RE_STORE.match(line)
        if m:
            ind, vol, ty, val, rest = m.groups()
            n += 1
            out.append("%s%%be.sw.%d = call %s @llvm.bswap.%s(%s %s)" % (ind, n, ty, ty, ty, val))
            out.append("%sstore %s%s %%be.sw.%d, %s" % (ind, vol or "", ty, n, rest))
            used.add(ty)
            continue
        if re.match(r"^\s*store (volatile )?(i16|i32|i64) ", line) or re.search(r"\b(atomicrmw|cmpxchg)\b", line):
            raise Tooling("memory access form is not handled: " + line[:160])
        out.append(line)
    for ty in sorted(used):
        out.append("declare %s @llvm.bswap.%s(%s)" % (ty, ty, ty))
    return "\n".join(out) + "\n"


def run(cmd):
    p = subprocess.run(cmd, capture_output=True, text=True)
    if p.returncode != 0:
        sys.stderr.write("command failed: %s\n%s%s" % (" ".join(cmd), p.stdout, p.stderr))
        raise SystemExit(1)
    return p.stdout


def main(argv):
    out, incs, defs, native, srcs = None, [], [], [], []
    it = iter(argv)
    for a in it:
        if a == "--out":
            out = next(it)
        elif a == "--inc":
            incs.append(next(it))
        elif a == "--def":
            defs.append(next(it))
        elif a == "--native":
            native.append(next(it))
        else:
            srcs.append(a)
    work = tempfile.mkdtemp(prefix="beir-", dir=os.path.dirname(os.path.abspath(out)))
    stubs = os.path.join(work, "stubs")
    os.makedirs(stubs)
    for name, text in STUBS.items():
        with open(os.path.join(stubs, name), "w") as f:
            f.write("#ifndef BEIR_STUB_%s\n#define BEIR_STUB_%s\n%s#endif\n" % (name.replace(".", "_").upper(),
                                                                                 name.replace(".", "_").upper(), text))
    resource = run(["clang", "-print-resource-dir"]).strip()
    objs = []
    try:
        for k, src in enumerate(srcs):
            ll = os.path.join(work, "be_%d.ll" % k)
            cmd = ["clang", "--target=powerpc64-unknown-linux-gnu", "-fPIC", "-nostdinc", "-I", stubs]
            for i in incs:
                cmd += ["-I", i]
            for d in defs:
                cmd += ["-D" + d]
            cmd += ["-isystem", os.path.join(resource, "include"), "-O0", "-w", "-emit-llvm", "-S", src, "-o", ll]
            run(cmd)
            with open(ll) as f:
                text = f.read()
            with open(ll, "w") as f:
                f.write(to_host(text))
            objs.append(ll)
        for k, src in enumerate(native):
            o = os.path.join(work, "native_%d.o" % k)
            cmd = ["gcc", "-c", "-fPIC", "-w"]
            for i in incs:
                cmd += ["-I", i]
            run(cmd + [src, "-o", o])
            objs.append(o)
        run(["clang", "-shared", "-fPIC", "-w"] + objs + ["-o", out])
    except Tooling as e:
        sys.stderr.write("beir tooling: %s\n" % e)
        return 3
    return 0


if __name__ == "__main__":
    sys.exit(main(sys.argv[1:]))
