"""Building generated C with the working tree's runtime and driving it through a ctypes worker."""
import ctypes
import json
import os
import subprocess
import sys
from concurrent.futures import ThreadPoolExecutor

from . import common, drive
from .gen import is_leaf, leaf_bits, strip


def upper_snake(name):
    out = ""
    for i, ch in enumerate(name):
        if ch.isupper() and i and (name[i - 1].islower() or (i + 1 < len(name) and name[i + 1].islower())):
            out += "_"
        out += ch.upper()
    return out


def leaf_patterns(t):
    """Leaf patterns of a message type in declaration order:
    [(member expression with zero indices, [element expressions for strides], leaf type, dims)]"""
    out = []

    def walk(tt, expr, strides, dims):
        tt = strip(tt)
        if is_leaf(tt):
            out.append((expr, list(strides), tt, list(dims)))
        elif tt["k"] == "array":
            walk(tt["elem"], expr + "[0]", strides + [expr + "[0]"], dims + [tt["cap"]])
        else:
            for f in tt["fields"]:
                walk(f["t"], (expr + "." if expr else "") + f["name"], strides, dims)
    walk(t, "", [], [])
    return out


def probe_source(header, top, pats, size_macro=None):
    lines = ['#include "%s"' % header, "#include <stddef.h>",
             "#define BPV_P ((struct %s *)0)" % top,
             "const long bpv_sizeof = (long)sizeof(struct %s);" % top,
             "const long bpv_bytes_length = (long)%s;" % (size_macro or ("BYTES_LENGTH_" + upper_snake(top))),
             "const long bpv_probe[] = {"]
    for expr, strides, _, _ in pats:
        row = ["(long)offsetof(struct %s, %s)" % (top, expr), "(long)sizeof(BPV_P->%s)" % expr]
        row += ["(long)sizeof(BPV_P->%s)" % s for s in strides]
        lines.append("  " + ", ".join(row) + ",")
    lines.append("  -1};")
    return "\n".join(lines) + "\n"


class CLib:
    def __init__(self, so, top, rtype, pats, table, sizeof, bytes_length):
        self.so = so
        self.top = top
        self.rtype = rtype
        self.pats = pats
        self.sizeof = sizeof
        self.bytes_length = bytes_length
        self.leaves = []   # (offset, size, strides, leaf type, dims)
        k = 0
        for expr, strides, lt, dims in pats:
            off, size = table[k], table[k + 1]
            st = table[k + 2:k + 2 + len(strides)]
            k += 2 + len(strides)
            self.leaves.append((off, size, list(st), lt, dims))

    # ---- memory images ----
    def _flat(self, v, t, out):
        t = strip(t)
        if is_leaf(t):
            out.append(v)
        elif t["k"] == "array":
            for x in v:
                self._flat(x, t["elem"], out)
        else:
            for f, x in zip(t["fields"], v):
                self._flat(x, f["t"], out)

    def addresses(self):
        """Per leaf pattern: list of offsets of every instance, in value-tree order."""
        res = []
        for off, size, strides, lt, dims in self.leaves:
            offs = [off]
            for cap, st in zip(dims, strides):
                offs = [o + i * st for o in offs for i in range(cap)]
            res.append(offs)
        return res

    def leaf_order(self):
        """Sequence of (pattern index, instance index) in the order leaves appear when the value
        tree is flattened depth first in declaration order."""
        # simple approach: enumerate patterns in type order with explicit index vectors
        pats = []

        def walk2(tt, pidx_holder, idxs):
            tt = strip(tt)
            if is_leaf(tt):
                p = pidx_holder[0]
                pidx_holder[0] += 1
                pats.append((p, tuple(idxs)))
            elif tt["k"] == "array":
                start = pidx_holder[0]
                end = start
                for i in range(tt["cap"]):
                    pidx_holder[0] = start
                    walk2(tt["elem"], pidx_holder, idxs + [i])
                    end = pidx_holder[0]
                pidx_holder[0] = end if tt["cap"] else start
            else:
                for f in tt["fields"]:
                    walk2(f["t"], pidx_holder, idxs)
        walk2(self.rtype, [0], [])
        return pats

    def image(self, v, raw=False, be=False):
        """Memory image of value tree v: every leaf written in its storage size, little-endian
        (or big-endian: storage as a big-endian host would hold it)."""
        mem = bytearray(self.sizeof)
        flat = []
        self._flat(v, self.rtype, flat)
        order = self._order()
        assert len(order) == len(flat), (len(order), len(flat))
        for (p, idxs), x in zip(order, flat):
            off, size, strides, lt, dims = self.leaves[p]
            a = off + sum(i * s for i, s in zip(idxs, strides))
            mem[a:a + size] = (int(x) & ((1 << (8 * size)) - 1)).to_bytes(size, "big" if be else "little")
        return mem

    def _order(self):
        if not hasattr(self, "_ord"):
            self._ord = self.leaf_order()
        return self._ord

    def read_image(self, mem, be=False):
        """Memory -> tree (declaration order) of storage bit vectors (LSB first)."""
        order = self._order()
        flat = []
        for p, idxs in order:
            off, size, strides, lt, dims = self.leaves[p]
            a = off + sum(i * s for i, s in zip(idxs, strides))
            x = int.from_bytes(mem[a:a + size], "big" if be else "little")
            flat.append([(x >> b) & 1 for b in range(8 * size)])
        it = iter(flat)

        def build(tt):
            tt = strip(tt)
            if is_leaf(tt):
                return next(it)
            if tt["k"] == "array":
                return [build(tt["elem"]) for _ in range(tt["cap"])]
            return [build(f["t"]) for f in tt["fields"]]
        return build(self.rtype)

    def widths(self):
        def build(tt, it):
            tt = strip(tt)
            if is_leaf(tt):
                return next(it)
            if tt["k"] == "array":
                sub = build(tt["elem"], it)
                return [sub for _ in range(tt["cap"])]
            return [build(f["t"], it) for f in tt["fields"]]
        return build(self.rtype, iter([8 * l[1] for l in self.leaves]))

    def covered_bytes(self):
        """Set of struct bytes that belong to some leaf (the rest is alignment padding)."""
        cov = bytearray(self.sizeof)
        for (p, idxs) in self._order():
            off, size, strides, lt, dims = self.leaves[p]
            a = off + sum(i * s for i, s in zip(idxs, strides))
            for k in range(size):
                cov[a + k] = 1
        return cov


class CBuilder:
    """Compiles the working tree's lib/c/bitproto.c once per flag set and links generated code."""

    def __init__(self, scratch, cflags=("-O1",), defines=(), cc="gcc", san=False):
        self.scratch = scratch
        self.cflags = list(cflags)
        self.defines = list(defines)
        self.cc = cc
        self.dir = scratch.sub()
        self.rt_obj = os.path.join(self.dir, "bitproto.o")
        cmd = [cc, "-c", "-fPIC", "-w"] + self.cflags + ["-D" + d for d in self.defines] + \
              ["-I", common.REPO_LIBC, os.path.join(common.REPO_LIBC, "bitproto.c"), "-o", self.rt_obj]
        p = subprocess.run(cmd, capture_output=True, text=True)
        if p.returncode != 0:
            raise common.MachineryError("cannot compile lib/c/bitproto.c: %s" % p.stderr[:2000])

    def generate(self, prog, d, optimize=False, endian="both", filter_messages=None):
        """Renders program text and runs the real compiler for C; returns list of .c files."""
        from . import render
        main_path, paths = render.write_program(prog, d)
        outs = drive.compile_program(paths, prog["order"], "c", d, optimize=optimize, endian=endian,
                                     filter_messages=filter_messages)
        cs = []
        for name in prog["order"]:
            for o in outs[name]:
                if o.endswith(".c"):
                    cs.append(o)
        return cs

    def link_cmd(self, d, cs, prog, single_tu=False):
        pats = leaf_patterns(prog["rtype"])
        probe = os.path.join(d, "bpv_probe.c")
        with open(probe, "w") as f:
            f.write(probe_source(prog["main"] + "_bp.h", prog.get("_c_top", prog["top"]), pats,
                                 prog.get("_c_size_macro")))
        so = os.path.join(d, "libcase.so")
        base = [self.cc, "-shared", "-fPIC", "-w"] + self.cflags + ["-D" + x for x in self.defines] + \
               ["-I", common.REPO_LIBC, "-I", d]
        if single_tu:
            unit = os.path.join(d, "bpv_unit.c")
            with open(unit, "w") as f:
                f.write('#include "%s"\n' % os.path.join(common.REPO_LIBC, "bitproto.c"))
                for c in cs:
                    f.write('#include "%s"\n' % c)
                f.write('#include "%s"\n' % probe)
            cmd = base + [unit, "-o", so]
        else:
            cmd = base + cs + [probe, self.rt_obj, "-o", so]
        return cmd, so, pats

    def load(self, so, prog, pats):
        return self._load(so, prog, pats)

    def _load(self, so, prog, pats):
        lib = ctypes.CDLL(so)
        n = sum(2 + len(p[1]) for p in pats)
        table = list((ctypes.c_long * (n + 1)).in_dll(lib, "bpv_probe"))
        if table[n] != -1:
            raise common.MachineryError("probe table misaligned")
        sizeof = ctypes.c_long.in_dll(lib, "bpv_sizeof").value
        bl = ctypes.c_long.in_dll(lib, "bpv_bytes_length").value
        return CLib(so, prog.get("_c_top", prog["top"]), prog["rtype"], pats, table[:n], sizeof, bl)


def run_many(cmds, jobs=16):
    """Runs gcc command lines in parallel; returns list of (rc, stderr)."""
    def one(cmd):
        p = subprocess.run(cmd, capture_output=True, text=True)
        return p.returncode, p.stderr
    with ThreadPoolExecutor(max_workers=jobs) as ex:
        return list(ex.map(one, cmds))


class Worker:
    """Client side of cworker.py; restarts the child when generated code kills it."""

    def __init__(self):
        self.p = None

    def start(self):
        self.p = subprocess.Popen([common.PY, "-u", os.path.join(os.path.dirname(__file__), "cworker.py")],
                                  stdin=subprocess.PIPE, stdout=subprocess.PIPE, stderr=subprocess.PIPE,
                                  text=True)

    def call(self, job):
        """Returns ("ok", results) | ("fault", description) | ("error", text)."""
        if self.p is None or self.p.poll() is not None:
            self.start()
        try:
            self.p.stdin.write(json.dumps(job) + "\n")
            self.p.stdin.flush()
            line = self.p.stdout.readline()
        except BrokenPipeError:
            line = ""
        if not line:
            rc = self.p.wait()
            err = self.p.stderr.read()[-500:] if self.p.stderr else ""
            self.p = None
            return "fault", "child died rc=%s %s" % (rc, err.strip().splitlines()[-1] if err.strip() else "")
        res = json.loads(line)
        if not res["ok"]:
            return "error", res["error"]
        return "ok", res["results"]

    def close(self):
        if self.p is not None and self.p.poll() is None:
            try:
                self.p.stdin.close()
                self.p.wait(timeout=5)
            except Exception:
                self.p.kill()
        self.p = None


def bits_of_bytes(b):
    return [(x >> k) & 1 for x in b for k in range(8)]


class BEBuilder(CBuilder):
    """Builds generated C + lib/c/bitproto.c with big-endian memory semantics (bpverif/beir.py: clang IR for a
    big-endian LP64 target, every integer load/store byte-swapped, retargeted to this host).  The offsetof /
    sizeof probe is compiled natively.  Standard mode and optimization mode alike; no -D is needed: the runtime
    detects the byte order from the compiler's predefined macros."""

    def __init__(self, scratch):
        self.scratch = scratch
        self.cflags = ["-O0"]
        self.defines = []
        self.cc = "clang"
        self.dir = scratch.sub()
        self.rt_obj = None
        import shutil
        if shutil.which("clang") is None:
            raise common.MachineryError("clang is needed for the big-endian build")

    def link_cmd(self, d, cs, prog, single_tu=False):
        pats = leaf_patterns(prog["rtype"])
        probe = os.path.join(d, "bpv_probe.c")
        with open(probe, "w") as f:
            f.write(probe_source(prog["main"] + "_bp.h", prog.get("_c_top", prog["top"]), pats,
                                 prog.get("_c_size_macro")))
        so = os.path.join(d, "libcase_be.so")
        cmd = [common.PY, os.path.join(common.VERIF, "bpverif", "beir.py"), "--out", so,
               "--inc", common.REPO_LIBC, "--inc", d, "--native", probe] + list(cs) + \
              [os.path.join(common.REPO_LIBC, "bitproto.c")]
        return cmd, so, pats

