"""Abstract program -> .bitproto text (part of the trusted projection; deliberately dumb)."""
import os


def expr_tokens(e):
    """Token list of a calculation expression for the specification (same order as the text)."""
    k = e["e"]
    if k == "int":
        return [["int", e["v"]]]
    if k == "ref":
        return [["ref", list(e["path"])]]
    if k == "bin":
        return expr_tokens(e["l"]) + [["op", e["op"]]] + expr_tokens(e["r"])
    if k == "par":
        return [["lp"]] + expr_tokens(e["x"]) + [["rp"]]
    if k == "toks":
        return [list(t) for t in e["toks"]]
    raise ValueError(k)


def expr_text(e):
    k = e["e"]
    if k == "toks":
        parts = []
        for t in e["toks"]:
            if t[0] == "int":
                parts.append(hex(t[1]) if len(t) > 2 and t[2] == "hex" else str(t[1]))
            elif t[0] == "ref":
                parts.append(".".join(t[1]))
            elif t[0] == "op":
                parts.append(t[1])
            elif t[0] == "lp":
                parts.append("(")
            elif t[0] == "rp":
                parts.append(")")
        # "glue": how the operators are spaced -- "A - 1" (default), "A-1", "A -1", "A- 1"; same tokens, same value
        glue = e.get("glue", "spaced")
        if glue == "spaced":
            return " ".join(parts)
        out = ""
        for i, (t, p) in enumerate(zip(e["toks"], parts)):
            if t[0] == "op":
                out += (" " if glue == "left" else "") + p + (" " if glue == "right" else "")
            else:
                out += p
        return out
    if k == "int":
        return hex(e["v"]) if e.get("hex") else str(e["v"])
    if k == "ref":
        return ".".join(e["path"])
    if k == "bin":
        return "%s %s %s" % (expr_text(e["l"]), e["op"], expr_text(e["r"]))
    if k == "par":
        return "(%s)" % expr_text(e["x"])
    if k == "bool":
        return e.get("text") or ("true" if e["v"] else "false")
    if k == "str":
        return '"%s"' % e["src"]      # src: already-escaped source text
    raise ValueError(k)


def type_text(t):
    k = t["k"]
    if k in ("bool", "byte"):
        return k
    if k in ("uint", "int"):
        return "%s%d" % (k, t["n"])
    if k == "ref":
        return ".".join(t["path"])
    if k == "array":
        return "%s[%s]%s" % (type_text(t["elem"]), expr_text(t["cap"]), "'" if t["ext"] else "")
    raise ValueError(k)


class Layout:
    def __init__(self, indent=4, semi=False, blank_between=True):
        self.indent = indent
        self.semi = semi
        self.blank_between = blank_between


def render_decls(decls, lay, depth, out):
    pad = " " * (lay.indent * depth)
    semi = ";" if lay.semi else ""
    for d in decls:
        for _ in range(d.get("blank_before", 0)):
            out.append("")
        for c in d.get("comment", []):
            out.append(pad + "// " + c if c else pad + "//")
        sm = ";" if d.get("semi", lay.semi) else ""
        k = d["d"]
        d["_line"] = len(out) + 1
        if k == "proto":
            out.append("%sproto %s%s" % (pad, d["name"], sm))
            out.append("")
        elif k == "import":
            # "spell": how the path is written ("./", "././" ...); the file meant stays d["file"]
            if d.get("as"):
                out.append('%simport %s "%s%s.bitproto"%s' % (pad, d["as"], d.get("spell", ""), d["file"], sm))
            else:
                out.append('%simport "%s%s.bitproto"%s' % (pad, d.get("spell", ""), d["file"], sm))
            out.append("")
        elif k == "option":
            out.append("%soption %s = %s%s" % (pad, d["name"], expr_text(d["v"]), sm))
        elif k == "const":
            out.append("%sconst %s = %s%s" % (pad, d["name"], expr_text(d["v"]), sm))
        elif k == "alias":
            if d.get("typedef"):
                # the deprecated spelling (a syntax warning on stderr, same meaning)
                out.append("%stypedef %s %s%s" % (pad, type_text(d["t"]), d["name"], sm))
            else:
                out.append("%stype %s = %s%s" % (pad, d["name"], type_text(d["t"]), sm))
        elif k == "enum":
            out.append("%senum %s : uint%d {" % (pad, d["name"], d["n"]))
            render_decls(d["body"], lay, depth + 1, out)
            d["_eline"] = len(out) + 1
            out.append(pad + "}")
        elif k == "efield":
            v = d["value"]
            out.append("%s%s = %s%s" % (pad, d["name"], hex(v) if d.get("hex") else str(v), sm))
        elif k == "message":
            out.append("%smessage %s%s {" % (pad, d["name"], "'" if d["ext"] else ""))
            render_decls(d["body"], lay, depth + 1, out)
            d["_eline"] = len(out) + 1
            out.append(pad + "}")
        elif k == "field":
            out.append("%s%s %s = %d%s" % (pad, type_text(d["t"]), d["name"], d["num"], sm))
        elif k == "raw":
            out.append(pad + d["text"])
        else:
            raise ValueError(k)
        if depth == 0 and lay.blank_between and k not in ("proto", "import"):
            out.append("")
        for _ in range(d.get("blank_after", 0)):
            out.append("")


def render_file(decls, lay=None):
    out = []
    render_decls(decls, lay or Layout(), 0, out)
    return "\n".join(out).rstrip("\n") + "\n"


def write_program(prog, outdir, lay=None):
    """Writes every file of the program; returns path of the main file."""
    paths = {}
    prog["_texts"] = {}
    for name, decls in prog["files"].items():
        p = os.path.join(outdir, name + ".bitproto")
        txt = render_file(decls, lay)
        # how the file ends: a final newline (default), none, or comment lines without one
        eof = prog.get("_eof")
        if eof == "no-newline":
            txt = txt.rstrip("\n")
        elif eof == "comment-no-newline":
            txt = txt + "// the last line is a comment"
        elif eof == "two-comments-no-newline":
            txt = txt + "// a trailing note\n// its second line"
        elif eof == "end-of-line-comment-no-newline":
            txt = txt.rstrip("\n") + " // end"
        with open(p, "w", encoding="utf8") as f:
            f.write(txt)
        prog["_texts"][name] = txt
        paths[name] = p
    return paths[prog["main"]], paths
