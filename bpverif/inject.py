"""Injecting one violation from the constraint catalogue of C08 into a valid program.

The injection only *edits the abstract program*; whether the result is valid or not, and where
the compiler has to reject it, is decided by the specification (Compiler.tla), never here."""
import copy
import random

from . import gen


def sites(prog):
    """Yields (file, container, index, decl, scope kind, enclosing decl or None)."""
    def walk(file, decls, kind, parent):
        for i, d in enumerate(decls):
            yield file, decls, i, d, kind, parent
            if d["d"] == "message":
                yield from walk(file, d["body"], "msg", d)
            elif d["d"] == "enum":
                yield from walk(file, d["body"], "enum", d)
    for name, decls in prog["files"].items():
        yield from walk(name, decls, "proto", None)


def type_exprs(prog):
    """All type expressions with their owner: (decl, key) where decl[key] is a texpr; array
    element types are yielded too as (texpr_array, "elem")."""
    out = []
    for file, cont, i, d, kind, parent in sites(prog):
        if d["d"] in ("field", "alias"):
            out.append((d, "t"))
            if d["t"]["k"] == "array":
                out.append((d["t"], "elem"))
    return out


def _ensure_lib(p):
    if "zzlib" not in p["files"]:
        files = {"zzlib": [{"d": "proto", "name": "zzlib"}]}
        files.update(p["files"])
        p["files"] = files
        p["order"] = ["zzlib"] + list(p["order"])


def pick(rng, xs):
    xs = list(xs)
    return rng.choice(xs) if xs else None


CATALOGUE = [
    "width", "enum-width", "capacity", "field-number", "dup-field-number", "enum-dup-value", "enum-overflow",
    "dup-name", "message-size", "max-bytes", "alias-named", "forbidden-in-message", "forbidden-in-enum",
    "option-unknown", "option-type", "option-scope", "undefined-type", "use-before-decl", "const-as-type",
    "type-as-const", "nonint-capacity", "cyclic-import", "duplicate-import", "import-name-taken",
    "extensible-in-traditional", "nonint-calc", "undefined-constant", "importer-name-leak",
]


def inject(prog, rule, rng):
    """Returns (program, note) with one edit of kind `rule`, or None if the program offers no
    place for it.  `note` says which side of a boundary was aimed at (informational)."""
    p = copy.deepcopy(prog)
    p.pop("rtype", None)
    S = list(sites(p))
    fresh = lambda pre: pre + "Zz" + gen.letters(rng.randrange(26 * 26))
    if rule == "width":
        cands = [(o, k) for o, k in type_exprs(p) if o[k]["k"] in ("uint", "int")]
        c = pick(rng, cands)
        if not c:
            return None
        n = rng.choice([0, 65, 66, 128, 64, 1])
        c[0][c[1]]["n"] = n
        return p, "width=%d" % n
    if rule == "enum-width":
        c = pick(rng, [d for _, _, _, d, _, _ in S if d["d"] == "enum"])
        if not c:
            return None
        n = rng.choice([0, 65, 64])
        c["n"] = n
        return p, "enum width=%d" % n
    if rule == "capacity":
        cands = [o[k] for o, k in type_exprs(p) if o[k]["k"] == "array"]
        c = pick(rng, cands)
        if not c:
            return None
        v = rng.choice([0, 65536, 70000, 65535, 1])
        c["cap"] = gen.lit(v)
        return p, "cap=%d" % v
    if rule == "field-number":
        c = pick(rng, [d for _, _, _, d, _, _ in S if d["d"] == "field"])
        if not c:
            return None
        v = rng.choice([0, 256, 257, 1000, 255, 1])
        c["num"] = v
        return p, "num=%d" % v
    if rule == "dup-field-number":
        msgs = [d for _, _, _, d, _, _ in S if d["d"] == "message" and
                len([x for x in d["body"] if x["d"] == "field"]) >= 2]
        m = pick(rng, msgs)
        if not m:
            return None
        fs = [x for x in m["body"] if x["d"] == "field"]
        a, b = rng.sample(fs, 2)
        a["num"] = b["num"]
        return p, "dup field number"
    if rule in ("enum-dup-value", "enum-overflow"):
        es = [d for _, _, _, d, _, _ in S if d["d"] == "enum" and d["body"]]
        e = pick(rng, es)
        if not e:
            return None
        if rule == "enum-dup-value":
            if len(e["body"]) < 2:
                e["body"].append({"d": "efield", "name": e["name"].upper() + "_DUP", "value": e["body"][0]["value"]})
            else:
                a, b = rng.sample(e["body"], 2)
                a["value"] = b["value"]
            return p, "dup enum value"
        side = rng.choice(["over", "max"])
        taken = {x["value"] for x in e["body"]}
        v = (1 << e["n"]) if side == "over" else (1 << e["n"]) - 1
        if v in taken:
            return None
        rng.choice(e["body"])["value"] = v
        return p, "enum value %s" % side
    if rule == "dup-name":
        # two members of one scope get the same name
        groups = {}
        for file, cont, i, d, kind, parent in S:
            if "name" in d and d["d"] not in ("proto", "option"):
                groups.setdefault(id(cont), []).append(d)
        gs = [g for g in groups.values() if len(g) >= 2]
        g = pick(rng, gs)
        if not g:
            return None
        a, b = rng.sample(g, 2)
        a["name"] = b["name"]
        return p, "dup name %s/%s" % (a["d"], b["d"])
    if rule == "message-size":
        msgs = [d for _, _, _, d, _, _ in S if d["d"] == "message"]
        m = pick(rng, msgs)
        if not m:
            return None
        nums = [x["num"] for x in m["body"] if x["d"] == "field"]
        if len(nums) >= 254:
            return None
        free = [n for n in range(1, 256) if n not in nums]
        cap = rng.choice([8191, 8192, 8190, 8189, 8188])
        m["body"].append({"d": "field", "name": "big_zz", "num": rng.choice(free),
                          "t": {"k": "array", "elem": {"k": "byte"}, "cap": gen.lit(cap), "ext": False}})
        return p, "grow by byte[%d]" % cap
    if rule == "max-bytes":
        msgs = [d for _, _, _, d, _, _ in S if d["d"] == "message"
                and not any(x["d"] == "option" for x in d["body"])]
        m = pick(rng, msgs)
        if not m:
            return None
        v = rng.choice([1, 2, 3, 5, 8, 16, 64, 200, 1000])
        m["body"].insert(rng.randrange(len(m["body"]) + 1),
                         {"d": "option", "name": "max_bytes", "v": gen.lit(v)})
        return p, "max_bytes=%d" % v
    if rule == "alias-named":
        named = [(f, d) for f, _, _, d, kind, _ in S if d["d"] in ("message", "enum", "alias") and kind == "proto"]
        c = pick(rng, named)
        if not c:
            return None
        file, d = c
        p["files"][file].append({"d": "alias", "name": fresh("Ty"), "t": gen.tref([d["name"]])})
        return p, "alias of %s" % d["d"]
    if rule == "forbidden-in-message":
        msgs = [(f, d) for f, _, _, d, _, _ in S if d["d"] == "message"]
        c = pick(rng, msgs)
        if not c:
            return None
        file, m = c
        what = rng.choice(["const", "alias", "proto", "import"])
        if what == "import":
            _ensure_lib(p)
        item = {"import": {"d": "import", "file": "zzlib", "as": None},
                "const": {"d": "const", "name": "ZZ_C", "v": gen.lit(3)},
                "alias": {"d": "alias", "name": fresh("Ty"), "t": {"k": "uint", "n": 3}},
                "proto": {"d": "proto", "name": "zz"}}[what]
        m["body"].insert(rng.randrange(len(m["body"]) + 1), item)
        return p, "%s in message" % what
    if rule == "forbidden-in-enum":
        es = [d for _, _, _, d, _, _ in S if d["d"] == "enum"]
        e = pick(rng, es)
        if not e:
            return None
        what = rng.choice(["const", "alias", "option", "enum", "message", "field", "proto", "import"])
        if what == "import":
            _ensure_lib(p)
        item = {"import": {"d": "import", "file": "zzlib", "as": None},
                "const": {"d": "const", "name": "ZZ_C", "v": gen.lit(3)},
                "alias": {"d": "alias", "name": fresh("Ty"), "t": {"k": "uint", "n": 3}},
                "option": {"d": "option", "name": "max_bytes", "v": gen.lit(3)},
                "enum": {"d": "enum", "name": fresh("En"), "n": 3,
                         "body": [{"d": "efield", "name": "ZZ_A", "value": 0}]},
                "message": {"d": "message", "name": fresh("Ms"), "ext": False,
                            "body": [{"d": "field", "name": "q", "num": 1, "t": {"k": "bool"}}]},
                "field": {"d": "field", "name": "q_zz", "num": 1, "t": {"k": "bool"}},
                "proto": {"d": "proto", "name": "zz"}}[what]
        e["body"].insert(rng.randrange(len(e["body"]) + 1), item)
        return p, "%s in enum" % what
    if rule in ("option-unknown", "option-type", "option-scope"):
        protos = [(f, p["files"][f]) for f in p["files"]]
        msgs = [d for _, _, _, d, _, _ in S if d["d"] == "message" and not any(x["d"] == "option" for x in d["body"])]
        if rule == "option-unknown":
            name = rng.choice(["c.nope", "max_byte", "py.module", "x", "go.package"])
            if rng.random() < 0.5 and msgs:
                pick(rng, msgs)["body"].insert(0, {"d": "option", "name": name, "v": gen.lit(1)})
            else:
                f, decls = pick(rng, protos)
                decls.insert(1, {"d": "option", "name": name, "v": gen.lit(1)})
            return p, "unknown option " + name
        if rule == "option-type":
            strv = {"e": "str", "src": "abc", "val": "abc"}
            boolv = {"e": "bool", "v": True}
            choices = [("c.struct_packing_alignment", rng.choice([strv, boolv, gen.lit(4)]), "proto"),
                       ("c.name_prefix", rng.choice([gen.lit(1), boolv, strv]), "proto"),
                       ("py.module_name", rng.choice([gen.lit(0), boolv]), "proto"),
                       ("max_bytes", rng.choice([strv, boolv]), "msg")]
            name, v, where = rng.choice(choices)
            if where == "msg":
                if not msgs:
                    return None
                pick(rng, msgs)["body"].insert(0, {"d": "option", "name": name, "v": v})
            else:
                f, decls = pick(rng, protos)
                if any(d["d"] == "option" and d["name"] == name for d in decls):
                    return None
                decls.insert(1, {"d": "option", "name": name, "v": v})
            return p, "option %s with %s" % (name, v["e"])
        if rng.random() < 0.5 and msgs:
            pick(rng, msgs)["body"].insert(0, {"d": "option", "name": "c.name_prefix",
                                                "v": {"e": "str", "src": "p", "val": "p"}})
            return p, "proto option in message"
        f, decls = pick(rng, protos)
        decls.insert(1, {"d": "option", "name": "max_bytes", "v": gen.lit(100)})
        return p, "message option at file scope"
    if rule == "undefined-type":
        c = pick(rng, [d for _, _, _, d, _, _ in S if d["d"] == "field"])
        if not c:
            return None
        c["t"] = gen.tref([fresh("Nope")] if rng.random() < 0.6 else ["nolib", "Thing"])
        return p, "undefined type"
    if rule == "use-before-decl":
        # move a referenced top-level definition to the end of its file
        for _ in range(6):
            f = rng.choice(list(p["files"]))
            decls = p["files"][f]
            cands = [i for i, d in enumerate(decls) if d["d"] in ("message", "enum", "alias", "const")]
            if len(cands) < 2:
                continue
            i = rng.choice(cands[:-1])
            d = decls.pop(i)
            decls.append(d)
            return p, "moved %s %s to the end" % (d["d"], d["name"])
        return None
    if rule == "const-as-type":
        c = pick(rng, [(f, d) for f, _, _, d, _, _ in S if d["d"] == "field"])
        if not c:
            return None
        f, d = c
        p["files"][f].insert(1, {"d": "const", "name": "ZZ_NOT_A_TYPE", "v": gen.lit(3)})
        d["t"] = gen.tref(["ZZ_NOT_A_TYPE"])
        return p, "const used as type"
    if rule == "type-as-const":
        named = [(f, d) for f, _, _, d, kind, _ in S if d["d"] in ("message", "enum", "alias") and kind == "proto"]
        c = pick(rng, named)
        if not c:
            return None
        f, d = c
        how = rng.choice(["cap", "const", "option"])
        if how == "cap":
            p["files"][f].append({"d": "alias", "name": fresh("Ty"),
                                  "t": {"k": "array", "elem": {"k": "bool"}, "cap": {"e": "ref", "path": [d["name"]]},
                                        "ext": False}})
        elif how == "const":
            p["files"][f].append({"d": "const", "name": "ZZ_FROM_TYPE",
                                  "v": rng.choice([{"e": "ref", "path": [d["name"]]},
                                                   {"e": "bin", "op": "+", "l": {"e": "ref", "path": [d["name"]]},
                                                    "r": gen.lit(1)}])})
        else:
            p["files"][f].append({"d": "message", "name": fresh("Ms"), "ext": False,
                                  "body": [{"d": "option", "name": "max_bytes", "v": {"e": "ref", "path": [d["name"]]}},
                                           {"d": "field", "name": "q", "num": 1, "t": {"k": "bool"}}]})
        return p, "type used as constant (%s)" % how
    if rule in ("nonint-capacity", "nonint-calc"):
        f = rng.choice(list(p["files"]))
        v = rng.choice([{"e": "bool", "v": True}, {"e": "str", "src": "s", "val": "s"}])
        p["files"][f].insert(1, {"d": "const", "name": "ZZ_NONINT", "v": v})
        if rule == "nonint-capacity":
            p["files"][f].append({"d": "alias", "name": fresh("Ty"),
                                  "t": {"k": "array", "elem": {"k": "bool"},
                                        "cap": {"e": "ref", "path": ["ZZ_NONINT"]}, "ext": False}})
        else:
            p["files"][f].append({"d": "const", "name": "ZZ_CALC",
                                  "v": {"e": "bin", "op": rng.choice("+-*/"), "l": gen.lit(2),
                                        "r": {"e": "ref", "path": ["ZZ_NONINT"]}}})
        return p, rule
    if rule == "undefined-constant":
        f = rng.choice(list(p["files"]))
        how = rng.choice(["cap", "const", "calc"])
        if how == "cap":
            p["files"][f].append({"d": "alias", "name": fresh("Ty"),
                                  "t": {"k": "array", "elem": {"k": "bool"},
                                        "cap": {"e": "ref", "path": ["ZZ_UNDEF"]}, "ext": False}})
        elif how == "const":
            p["files"][f].append({"d": "const", "name": "ZZ_X", "v": {"e": "ref", "path": ["ZZ_UNDEF"]}})
        else:
            p["files"][f].append({"d": "const", "name": "ZZ_X",
                                  "v": {"e": "bin", "op": "*", "l": {"e": "ref", "path": ["ZZ_UNDEF"]}, "r": gen.lit(2)}})
        return p, "undefined constant (%s)" % how
    if rule in ("cyclic-import", "duplicate-import", "import-name-taken"):
        names = list(p["files"])
        if rule == "cyclic-import":
            # the path of the closing import may be spelled differently from the one already being parsed
            spell = rng.choice(["", "", "./", "././"])
            if len(names) >= 2 and rng.random() < 0.7:
                lib = [n for n in names if n != p["main"]][0]
                p["files"][lib].insert(1, {"d": "import", "file": p["main"], "as": None, "spell": spell})
                return p, "lib imports main%s" % (" as %s" % spell if spell else "")
            f = rng.choice(names)
            p["files"][f].insert(1, {"d": "import", "file": f, "as": rng.choice([None, "selfie"]), "spell": spell})
            return p, "self import%s" % (" as %s" % spell if spell else "")
        if len(names) < 2:
            return None
        main = p["files"][p["main"]]
        imps = [i for i, d in enumerate(main) if d["d"] == "import"]
        if not imps:
            return None
        if rule == "duplicate-import":
            d = dict(main[imps[0]])
            d["as"] = rng.choice([None, "again"])
            main.insert(imps[0] + 1, d)
            return p, "duplicate import"
        imp = main[imps[0]]
        nm = imp.get("as") or imp["file"]
        kind = rng.choice(["const", "message"])
        item = {"d": "const", "name": nm, "v": gen.lit(1)} if kind == "const" else \
            {"d": "message", "name": nm, "ext": False, "body": []}
        main.insert(imps[0], item)
        return p, "import name already used by a %s" % kind
    if rule == "importer-name-leak":
        # an imported file uses a name that only its IMPORTER can see: one the importer declares above the import
        # line, or the name of a sibling import.  Each file resolves names in its own scopes only.
        main = p["files"][p["main"]]
        how = rng.choice(["type", "const", "message", "sibling"])
        if how == "sibling":
            if len(p["files"]) < 2 or p.get("rtype") is None:
                how = "type"
            else:
                old_main = p["main"]
                lib = [f for f in p["order"] if f != old_main][0]
                top = p["top"]
                p = gen.wrap_diamond(p, random.Random(rng.random()))
                app = p["files"][p["main"]]
                imps = [d for d in app if d["d"] == "import"]
                imps.sort(key=lambda d: 0 if d["file"] == old_main else 1)      # the old main file first
                p["files"][p["main"]] = [d for d in app if d["d"] == "proto"] + imps + \
                    [d for d in app if d["d"] not in ("proto", "import")]
                p["files"][lib] = list(p["files"][lib]) + [
                    {"d": "message", "name": "ZzUser", "ext": False,
                     "body": [{"d": "field", "name": "t", "num": 1, "t": gen.tref([old_main, top])}]}]
                p.pop("rtype", None)
                return p, "the imported file uses the name of a sibling import"
        _ensure_lib(p)
        main = p["files"][p["main"]]
        if not any(d["d"] == "import" and d["file"] == "zzlib" for d in main):
            pi = [i for i, d in enumerate(main) if d["d"] == "proto"][0]
            main.insert(pi + 1, {"d": "import", "file": "zzlib", "as": None})
        ii = [i for i, d in enumerate(main) if d["d"] == "import" and d["file"] == "zzlib"][0]
        lib = p["files"]["zzlib"]
        if how == "type":
            main.insert(ii, {"d": "alias", "name": "ZzLeakT", "t": {"k": "uint", "n": 7}})
            lib.append({"d": "message", "name": "ZzUser", "ext": False,
                        "body": [{"d": "field", "name": "x", "num": 1, "t": gen.tref(["ZzLeakT"])}]})
        elif how == "message":
            main.insert(ii, {"d": "message", "name": "ZzLeakM", "ext": False,
                             "body": [{"d": "field", "name": "b", "num": 1, "t": {"k": "bool"}}]})
            lib.append({"d": "alias", "name": "ZzArr", "t": {"k": "array", "elem": gen.tref(["ZzLeakM"]),
                                                             "cap": gen.lit(2), "ext": False}})
        else:
            main.insert(ii, {"d": "const", "name": "ZZ_LEAK", "v": gen.lit(3)})
            lib.append({"d": "alias", "name": "ZzArr", "t": {"k": "array", "elem": {"k": "bool"},
                                                             "cap": {"e": "ref", "path": ["ZZ_LEAK"]}, "ext": False}})
        return p, "the imported file uses a %s its importer declares above the import line" % how
    if rule == "extensible-in-traditional":
        return p, "traditional mode"
    raise KeyError(rule)
