"""Generators: abstract programs (U_rand), resolved type trees, values.

A program is {"files": {name: [decl...]}, "order": [imported..., main], "main": name}.
Declarations are nested dicts (a message carries its body).  The top-down generator knows
the resolved type tree it *intends* each message to have; the specification (TLC) is the
oracle that uses it, and Compiler.tla re-derives it from the program (a mismatch between
the two is a machinery failure, never a verdict).
"""
import copy
import json
import random

WIDTH_BIAS = [1, 2, 3, 7, 8, 9, 13, 15, 16, 17, 24, 31, 32, 33, 48, 63, 64]
CAP_BIAS = [1, 2, 3, 4, 5, 6, 7, 8, 9, 12, 16, 17, 31, 33]


def letters(n):
    s = ""
    n += 1
    while n > 0:
        n -= 1
        s = chr(ord("a") + n % 26) + s
        n //= 26
    return s


# --------------------------------------------------------------------------------------
# resolved types (Python side mirrors Types.tla; keys starting with "_" are harness-only)
# --------------------------------------------------------------------------------------

def strip(t):
    while t["k"] == "alias":
        t = t["to"]
    return t


def is_leaf(t):
    return t["k"] in ("bool", "byte", "uint", "int", "enum")


def leaf_bits(t):
    return 1 if t["k"] == "bool" else 8 if t["k"] == "byte" else t["n"]


def steer_nbits(t):
    """Size used only to steer generation inside the 65535-bit limit (the oracle is TLC)."""
    k = t["k"]
    if is_leaf(t):
        return leaf_bits(t)
    if k == "alias":
        return steer_nbits(t["to"])
    if k == "array":
        return (16 if t["ext"] else 0) + t["cap"] * steer_nbits(t["elem"])
    return (16 if t["ext"] else 0) + sum(steer_nbits(f["t"]) for f in t["fields"])


def export_type(t):
    """JSON for TLC: drop harness-only keys."""
    if isinstance(t, dict):
        return {k: export_type(v) for k, v in t.items() if not k.startswith("_")}
    if isinstance(t, list):
        return [export_type(x) for x in t]
    return t


def has_ext(t):
    k = t["k"]
    if is_leaf(t):
        return False
    if k == "alias":
        return has_ext(t["to"])
    if k == "array":
        return t["ext"] or has_ext(t["elem"])
    return t["ext"] or any(has_ext(f["t"]) for f in t["fields"])


def shape_key(t):
    """Structural fingerprint of a resolved type (names dropped) for distinctness counts."""
    k = t["k"]
    if is_leaf(t):
        return (k, leaf_bits(t))
    if k == "alias":
        return ("alias", shape_key(t["to"]))
    if k == "array":
        return ("array", t["ext"], t["cap"], shape_key(t["elem"]))
    return ("msg", t["ext"], tuple((f["num"], shape_key(f["t"])) for f in t["fields"]))


def features(t, acc=None):
    acc = acc if acc is not None else set()
    k = t["k"]
    if is_leaf(t):
        n = leaf_bits(t)
        acc.add(k)
        if k in ("uint", "int", "enum"):
            acc.add("%s:%s" % (k, "std" if n in (8, 16, 32, 64) else "le8" if n < 8 else "le16" if n < 16
                               else "le32" if n < 32 else "le64"))
    elif k == "alias":
        acc.add("alias-of-" + t["to"]["k"])
        features(t["to"], acc)
    elif k == "array":
        acc.add("array" + ("-ext" if t["ext"] else ""))
        acc.add("array-of-" + t["elem"]["k"])
        features(t["elem"], acc)
    else:
        acc.add("msg" + ("-ext" if t["ext"] else ""))
        if not t["fields"]:
            acc.add("msg-empty")
        nums = [f["num"] for f in t["fields"]]
        if nums != sorted(nums):
            acc.add("fields-permuted")
        for f in t["fields"]:
            features(f["t"], acc)
    return acc


# --------------------------------------------------------------------------------------
# values
# --------------------------------------------------------------------------------------

def leaf_range(t):
    n = leaf_bits(t)
    if t["k"] == "int":
        return -(1 << (n - 1)), (1 << (n - 1)) - 1
    return 0, (1 << n) - 1


def gen_leaf(rng, t, mode):
    if t["k"] == "enum":
        vals = t["_vals"]
        if mode == "zero":
            return vals[0]
        if mode == "ones":
            return vals[-1]
        return rng.choice(vals)
    lo, hi = leaf_range(t)
    if mode == "zero":
        return 0
    if mode == "ones":
        return -1 if t["k"] == "int" else hi
    r = rng.random()
    if r < 0.15:
        return lo
    if r < 0.30:
        return hi
    if r < 0.40:
        return 0
    if r < 0.50 and t["k"] == "int":
        return -1
    if r < 0.60:
        b = rng.randrange(leaf_bits(t))
        x = 1 << b
        if t["k"] == "int" and x > hi:
            x = lo
        return x
    return rng.randint(lo, hi)


def gen_value(rng, t, mode="rand"):
    k = t["k"]
    if is_leaf(t):
        return gen_leaf(rng, t, mode)
    if k == "alias":
        return gen_value(rng, t["to"], mode)
    if k == "array":
        return [gen_value(rng, t["elem"], mode) for _ in range(t["cap"])]
    return [gen_value(rng, f["t"], mode) for f in t["fields"]]


def to_sm(x):
    """sign-magnitude list [s, m0, m1, ...] of a Python integer (projection for the spec)."""
    x = int(x)
    s = 1 if x < 0 else 0
    m = -x if x < 0 else x
    out = [s]
    while m:
        out.append(m & 1)
        m >>= 1
    return out


def sm_tree(t, v):
    k = t["k"]
    if is_leaf(t):
        return to_sm(v)
    if k == "alias":
        return sm_tree(t["to"], v)
    if k == "array":
        return [sm_tree(t["elem"], x) for x in v]
    return [sm_tree(f["t"], x) for f, x in zip(t["fields"], v)]


# --------------------------------------------------------------------------------------
# expressions / type expressions
# --------------------------------------------------------------------------------------

def lit(v, hex_=False):
    return {"e": "int", "v": v, "hex": hex_}


def tref(path):
    return {"k": "ref", "path": list(path)}


# --------------------------------------------------------------------------------------
# the top-down random schema generator
# --------------------------------------------------------------------------------------

class Cfg:
    def __init__(self, **kw):
        self.max_bits = 3000        # size budget for the top message
        self.max_depth = 3
        self.max_fields = 8
        self.p_ext = 0.3
        self.imports = True
        self.enums = True
        self.aliases = True
        self.arrays = True
        self.nested = True
        self.p_enum_nonzero_first = 0.0   # D14 territory, off unless asked
        self.p_empty_msg = 0.03
        self.big_arrays = False
        self.consts = True
        self.lib_name = "lib"
        self.main_name = "main"
        self.lib_as = None
        self.widths = None          # when set: integer widths are drawn from this list only
        self.caps = None            # when set: array capacities are drawn from this list only
        self.p_small_leaf = 0.27    # share of bool / byte among base leaves
        for k, v in kw.items():
            if not hasattr(self, k):
                raise KeyError(k)
            setattr(self, k, v)


class RandSchema:
    """Builds one program with one designated top message and its intended resolved type."""

    def __init__(self, rng, cfg=None):
        self.rng = rng
        self.cfg = cfg or Cfg()
        self.n = 0
        self.main = []
        self.lib = []
        self.reusable = []   # (file, path, kind, rtype, nbits)
        self.uses_lib = False
        self.consts = {"main": [], "lib": []}   # (name, value)

    def fresh(self, prefix):
        s = letters(self.n)
        self.n += 1
        return prefix + s

    # ---- leaves ----
    def width(self):
        r = self.rng
        if self.cfg.widths:
            return r.choice(self.cfg.widths)
        return r.choice(WIDTH_BIAS) if r.random() < 0.6 else r.randint(1, 64)

    def gen_base(self):
        r = self.rng.random()
        ps = self.cfg.p_small_leaf
        if r < ps * 0.55:
            return {"k": "bool"}, {"k": "bool"}
        if r < ps:
            return {"k": "byte"}, {"k": "byte"}
        n = self.width()
        k = "uint" if r < 0.65 else "int"
        return {"k": k, "n": n}, {"k": k, "n": n}

    def place(self, decl, body, file, kinds_nested_ok=True):
        """Place a new named definition: nested in the current message body, or top level of
        `file`, or (when the user is in main) top level of lib.  Returns (file, path-prefix)."""
        r = self.rng.random()
        if body is not None and kinds_nested_ok and self.cfg.nested and r < 0.35:
            body.append(decl)
            return file, "nested"
        if file == "main" and self.cfg.imports and r > 0.75:
            self.lib.append(decl)
            self.uses_lib = True
            return "lib", "top"
        (self.main if file == "main" else self.lib).append(decl)
        return file, "top"

    def ref_from(self, user_file, def_file, name):
        if def_file == user_file:
            return tref([name])
        libref = self.cfg.lib_as or self.cfg.lib_name
        return tref([libref, name])

    def cap_expr(self, cap, file):
        """Capacity as a literal or as a reference to an integer constant of equal value."""
        if self.cfg.consts and self.rng.random() < 0.2:
            name = self.fresh("CAP_").upper()
            decl = {"d": "const", "name": name, "v": lit(cap)}
            (self.main if file == "main" else self.lib).append(decl)
            return {"e": "ref", "path": [name]}
        return lit(cap)

    def gen_enum(self, body, file):
        n = self.rng.choice([1, 2, 3, 4, 5, 7, 8, 9, 12, 16, 17, 31, 32, 33, 64]) \
            if self.rng.random() < 0.8 else self.rng.randint(1, 64)
        name = self.fresh("Enum")
        maxv = (1 << n) - 1
        cnt = min(self.rng.randint(1, 6), maxv + 1)
        vals = set()
        first_nonzero = self.rng.random() < self.cfg.p_enum_nonzero_first and maxv >= 1
        if not first_nonzero:
            vals.add(0)
        while len(vals) < cnt:
            r = self.rng.random()
            if r < 0.3:
                vals.add(maxv)
            elif r < 0.6:
                vals.add(self.rng.randint(0, min(maxv, 300)))
            else:
                vals.add(self.rng.randint(0, maxv))
        vals = sorted(vals)
        if first_nonzero:
            vals = [v for v in vals if v != 0] or [1]
        order = list(vals)
        if len(order) > 1 and self.rng.random() < 0.3:
            rest = order[1:]
            self.rng.shuffle(rest)
            order = order[:1] + rest
        up = name.upper()
        members = [{"d": "efield", "name": "%s_%s" % (up, letters(i).upper()), "value": v}
                   for i, v in enumerate(order)]
        decl = {"d": "enum", "name": name, "n": n, "body": members}
        rt = {"k": "enum", "n": n, "name": name, "_vals": list(vals), "_default": order[0]}
        dfile, how = self.place(decl, body, file)
        if how == "top":
            self.reusable.append((dfile, name, "enum", rt, n))
        return self.ref_from(file, dfile, name), rt, n

    def gen_alias(self, depth, budget, file):
        user_file = file
        if file == "main" and self.cfg.imports and self.rng.random() < 0.25:
            # the alias (and whatever it is made of) lives in the imported file
            file = "lib"
            self.uses_lib = True
        name = self.fresh("Ty")
        if self.cfg.arrays and self.rng.random() < 0.5 and budget >= 2:
            te, rt, nb = self.gen_array(depth, budget, None, file)
        else:
            te, rt = self.gen_base()
            nb = steer_nbits(rt)
        decl = {"d": "alias", "name": name, "t": te}
        # an alias must live at file scope; its dependencies were placed in the same file
        (self.main if file == "main" else self.lib).append(decl)
        art = {"k": "alias", "name": name, "to": rt}
        self.reusable.append((file, name, "alias", art, nb))
        return self.ref_from(user_file, file, name), art, nb

    def gen_elem(self, depth, budget, body, file):
        """Array element: base, enum, alias or message (never an array directly)."""
        r = self.rng.random()
        if r < 0.5 or budget < 4:
            te, rt = self.gen_base()
            return te, rt, steer_nbits(rt)
        if r < 0.62 and self.cfg.enums:
            return self.gen_enum(body, file)
        if r < 0.74 and self.cfg.aliases and depth < self.cfg.max_depth:
            return self.gen_alias(depth + 1, budget, file)
        if r < 0.80 and self.reusable:
            got = self.reuse(file, budget)
            if got:
                return got
        if depth < self.cfg.max_depth:
            return self.gen_message(depth + 1, budget, body, file)
        te, rt = self.gen_base()
        return te, rt, steer_nbits(rt)

    def reuse(self, file, budget):
        cands = [x for x in self.reusable if x[4] <= budget and (x[0] == file or (file == "main" and x[0] == "lib"))]
        if not cands:
            return None
        dfile, name, kind, rt, nb = self.rng.choice(cands)
        if dfile != file:
            self.uses_lib = True
        return self.ref_from(file, dfile, name), rt, nb

    def gen_array(self, depth, budget, body, file):
        ext = self.rng.random() < self.cfg.p_ext
        avail = budget - (16 if ext else 0)
        te, rt, nb = self.gen_elem(depth, max(1, avail // 2), body, file)
        maxcap = max(1, avail // max(nb, 1)) if nb else 8
        if self.cfg.big_arrays and self.rng.random() < 0.3:
            cap = min(maxcap, self.rng.choice([64, 100, 255, 256, 1000, 4096, 65535]))
        elif self.cfg.caps:
            cap = min(maxcap, self.rng.choice(self.cfg.caps))
        else:
            cap = min(maxcap, self.rng.choice(CAP_BIAS) if self.rng.random() < 0.8 else self.rng.randint(1, 40))
        cap = max(1, min(cap, 65535))
        ate = {"k": "array", "elem": te, "cap": self.cap_expr(cap, file), "ext": ext}
        art = {"k": "array", "ext": ext, "cap": cap, "elem": rt, "_texpr": ate}
        return ate, art, steer_nbits(art)

    def gen_field_type(self, depth, budget, body, file):
        r = self.rng.random()
        c = self.cfg
        if budget < 2:
            return {"k": "bool"}, {"k": "bool"}, 1
        if r < 0.40:
            te, rt = self.gen_base()
            if steer_nbits(rt) > budget:
                te, rt = {"k": "bool"}, {"k": "bool"}
            return te, rt, steer_nbits(rt)
        if r < 0.50 and c.enums:
            te, rt, nb = self.gen_enum(body, file)
            if nb <= budget:
                return te, rt, nb
            return {"k": "bool"}, {"k": "bool"}, 1
        if r < 0.60 and c.aliases and depth < c.max_depth:
            got = self.gen_alias(depth + 1, budget, file)
            if got[2] <= budget:
                return got
            return {"k": "bool"}, {"k": "bool"}, 1
        if r < 0.80 and c.arrays and budget >= 4:
            return self.gen_array(depth, budget, body, file)
        if r < 0.87 and self.reusable:
            got = self.reuse(file, budget)
            if got:
                return got
        if depth < c.max_depth and budget >= 20:
            return self.gen_message(depth + 1, budget, body, file)
        te, rt = self.gen_base()
        if steer_nbits(rt) > budget:
            te, rt = {"k": "bool"}, {"k": "bool"}
        return te, rt, steer_nbits(rt)

    def gen_message(self, depth, budget, body, file, top=False, name=None):
        """Creates a message definition; returns (type ref, resolved type, nbits)."""
        c = self.cfg
        name = name or self.fresh("Msg")
        ext = self.rng.random() < c.p_ext
        mybody = []
        fields = []
        used = 16 if ext else 0
        budget = min(budget, 65535)
        if self.rng.random() < c.p_empty_msg and not top:
            nf = 0
        else:
            nf = self.rng.randint(1, c.max_fields if depth < 2 else max(2, c.max_fields // 2))
        # sparse, permuted field numbers
        if self.rng.random() < 0.5:
            nums = list(range(1, nf + 1))
        else:
            nums = sorted(self.rng.sample(range(1, 256), nf))
        if self.rng.random() < 0.5:
            self.rng.shuffle(nums)
        # where does this definition go?  decide first: nested defs of a lib message go to lib
        if top:
            dfile, how = file, "top"
        else:
            r = self.rng.random()
            if body is not None and c.nested and r < 0.4:
                dfile, how = file, "nested"
            elif file == "main" and c.imports and r > 0.8:
                dfile, how = "lib", "top"
                self.uses_lib = True
            else:
                dfile, how = file, "top"
        for i in range(nf):
            left = budget - used
            if left < 1:
                break
            share = max(1, left // max(1, (nf - i)) * 2) if i < nf - 1 else left
            te, rt, nb = self.gen_field_type(depth, min(left, share), mybody, dfile)
            if nb > left:
                te, rt, nb = {"k": "bool"}, {"k": "bool"}, 1
            fname = "f_" + letters(i)
            mybody.append({"d": "field", "name": fname, "num": nums[i], "t": te})
            fields.append({"num": nums[i], "name": fname, "t": rt})
            used += nb
        decl = {"d": "message", "name": name, "ext": ext, "body": mybody}
        rt = {"k": "msg", "name": name, "ext": ext, "fields": fields, "_decl": decl, "_uid": self.fresh("u")}
        if how == "nested":
            body.append(decl)
        else:
            (self.main if dfile == "main" else self.lib).append(decl)
            if not top:
                self.reusable.append((dfile, name, "msg", rt, used))
        return self.ref_from(file, dfile, name), rt, used

    def build(self, top_name="Top"):
        te, rt, nb = self.gen_message(0, self.cfg.max_bits, None, "main", top=True, name=top_name)
        c = self.cfg
        files = {}
        order = []
        if self.uses_lib or (self.lib and c.imports):
            files[c.lib_name] = [{"d": "proto", "name": c.lib_name}] + self.lib
            order.append(c.lib_name)
            imp = {"d": "import", "file": c.lib_name, "as": c.lib_as}
            files[c.main_name] = [{"d": "proto", "name": c.main_name}, imp] + self.main
        else:
            files[c.main_name] = [{"d": "proto", "name": c.main_name}] + self.main
        order.append(c.main_name)
        return {"files": files, "order": order, "main": c.main_name,
                "top": top_name, "rtype": rt, "nbits": nb}


# a profile that makes "wire size == 8 * sizeof" coincidences likely: byte-multiple and nibble widths, power-of-two
# capacities, many extensible markers, few bool / byte leaves (fast paths keyed on such equalities live here)
COINCIDENCE = dict(widths=[8, 16, 24, 32, 40, 48, 56, 64, 4, 12, 6, 7, 28, 60], caps=[1, 2, 3, 4, 8, 16], p_ext=0.55,
                   p_small_leaf=0.08, max_fields=3, p_empty_msg=0.0)


def rand_case(seed_, idx, **cfg):
    rng = random.Random("%d/%d" % (seed_, idx))
    r = rng.random()
    kw = dict(cfg)
    if "max_bits" not in kw:
        kw["max_bits"] = rng.choice([40, 120, 400, 1200, 3000]) if r < 0.9 else 12000
    reuse = kw.pop("reuse_names", 0.35)
    g = RandSchema(rng, Cfg(**kw))
    prog = g.build()
    if reuse and rng.random() < reuse:
        # the same bare name for different nested definitions in unrelated scopes
        reuse_nested_names(prog, random.Random("reuse/%d/%d" % (seed_, idx)))
    return prog, rng


# --------------------------------------------------------------------------------------
# complete finite space U_full (C14): single leaves at every bit offset and position
# --------------------------------------------------------------------------------------

def ufull_leaf_types():
    out = [{"k": "bool"}, {"k": "byte"}]
    for n in range(1, 65):
        out.append({"k": "uint", "n": n})
        out.append({"k": "int", "n": n})
    return out


def basis_values(t, reduced=False):
    n = leaf_bits(t)
    lo, hi = leaf_range(t)
    vals = {0, lo, hi}
    if t["k"] == "int":
        vals.add(-1)
    bits = range(n) if not reduced else sorted({0, n - 1, n // 2, max(0, n - 2), min(n - 1, 7), min(n - 1, 8)})
    for b in bits:
        x = 1 << b
        if t["k"] == "int" and x > hi:
            x = lo
        vals.add(x)
    return sorted(vals)


def texpr_of_leaf(t):
    return dict(t)


# --------------------------------------------------------------------------------------
# every message of a program with its scope path (needed to look size constants up)
# --------------------------------------------------------------------------------------

def message_nodes(t, acc=None, seen=None):
    """All distinct message nodes of a resolved type tree."""
    acc = acc if acc is not None else []
    seen = seen if seen is not None else set()
    k = t["k"]
    if is_leaf(t):
        return acc
    if k == "alias":
        return message_nodes(t["to"], acc, seen)
    if k == "array":
        return message_nodes(t["elem"], acc, seen)
    if id(t) not in seen:
        seen.add(id(t))
        acc.append(t)
        for f in t["fields"]:
            message_nodes(f["t"], acc, seen)
    return acc


def decl_paths(prog):
    """id(message decl) -> (file, [enclosing names..., own name])"""
    out = {}

    def walk(decls, file, path):
        for d in decls:
            if d["d"] == "message":
                out[id(d)] = (file, path + [d["name"]])
                walk(d["body"], file, path + [d["name"]])
    for name, decls in prog["files"].items():
        walk(decls, name, [])
    return out


def all_messages(prog):
    paths = decl_paths(prog)
    res = []
    for m in message_nodes(prog["rtype"]):
        d = m.get("_decl")
        if d is not None and id(d) in paths:
            res.append((paths[id(d)][0], paths[id(d)][1], m))
    return res


# --------------------------------------------------------------------------------------
# a third file on top: app imports main and (when there is one) lib, which main imports too
# --------------------------------------------------------------------------------------

def _typed_nodes(t, acc, seen):
    if id(t) in seen:
        return
    seen.add(id(t))
    k = t["k"]
    if k in ("alias", "enum", "msg") and t.get("name"):
        acc.append(t)
    if k == "alias":
        _typed_nodes(t["to"], acc, seen)
    elif k == "array":
        _typed_nodes(t["elem"], acc, seen)
    elif k == "msg":
        for f in t["fields"]:
            _typed_nodes(f["t"], acc, seen)


def wrap_diamond(prog, rng, app="app", top="App"):
    """A program whose main file `app` imports the old main file and the file the old main imports (a diamond
    of imports when there is one), with a message holding the old top message and, when the intended type tree
    knows one, a type declared at the top of the imported file.  The intended type tree is extended likewise."""
    p = dict(prog)
    files = dict(prog["files"])
    old_main = prog["main"]
    others = [f for f in prog["order"] if f != old_main]
    decls = [{"d": "proto", "name": app}]
    first_lib = rng.random() < 0.5
    imps = [{"d": "import", "file": old_main, "as": None}] + [{"d": "import", "file": f, "as": None} for f in others]
    if first_lib:
        imps.reverse()
    decls += imps
    def member_name(f):       # an imported file is a member under its PROTO name (the last proto line wins)
        return [d["name"] for d in files[f] if d["d"] == "proto"][-1]
    body = [{"d": "field", "name": "t", "num": 3, "t": tref([member_name(old_main), prog["top"]])}]
    fields = [{"num": 3, "name": "t", "t": prog.get("rtype")}]
    if others and prog.get("rtype") is not None:
        lib = others[0]
        tops = {d["name"]: d for d in files[lib] if d["d"] in ("alias", "enum", "message")}
        nodes = []
        _typed_nodes(prog["rtype"], nodes, set())
        cands = [n for n in nodes if n["name"] in tops and
                 (n["k"] != "msg" or n.get("_decl") is tops[n["name"]])]
        # nested messages may carry a top-level name by accident: identity of the declaration decides for them;
        # aliases / enums are matched by name and kind
        cands = [n for n in cands if {"alias": "alias", "enum": "enum", "msg": "message"}[n["k"]] == tops[n["name"]]["d"]]
        if cands:
            n = rng.choice(cands)
            body.append({"d": "field", "name": "y", "num": 1, "t": tref([member_name(lib), n["name"]])})
            fields.append({"num": 1, "name": "y", "t": n})
    decl = {"d": "message", "name": top, "ext": False, "body": body}
    decls.append(decl)
    files[app] = decls
    p["files"] = files
    p["order"] = list(prog["order"]) + [app]
    p["main"] = app
    p["top"] = top
    if prog.get("rtype") is not None:
        p["rtype"] = {"k": "msg", "name": top, "ext": False, "fields": fields, "_decl": decl}
    p["nbits"] = None
    p.pop("_texts", None)
    return p


# --------------------------------------------------------------------------------------
# the same bare name in unrelated scopes (enum Status nested in two different messages ...)
# --------------------------------------------------------------------------------------

def reuse_nested_names(prog, rng, p=0.6):
    """Renames nested enum / message definitions to names that nested definitions of the same kind carry in
    UNRELATED message bodies (neither an ancestor nor a descendant, never a top-level name), so that one bare
    name denotes different definitions in different scopes.  References are updated; the intended type tree
    keeps its structure (names only).  Returns the number of definitions renamed."""
    bodies = []      # (body list, ancestors: list of body ids)

    def walk(decls, anc):
        for d in decls:
            if d["d"] == "message":
                bodies.append((d["body"], anc))
                walk(d["body"], anc + [id(d["body"])])
    top_names = set()
    for decls in prog["files"].values():
        top_names |= {d["name"] for d in decls if "name" in d}
        walk(decls, [])
    by_id = {id(b): (b, anc) for b, anc in bodies}

    def subtree_names(body):
        out = set()
        for d in body:
            if d["d"] in ("message", "enum"):
                out.add(d["name"])
            if d["d"] == "message":
                out |= subtree_names(d["body"])
        return out

    def set_refs(body, old, new):
        for d in body:
            if d["d"] == "field":
                t = d["t"]
                for te in ([t, t["elem"]] if t["k"] == "array" else [t]):
                    if te["k"] == "ref" and te["path"] == [old]:
                        te["path"] = [new]
            elif d["d"] == "message":
                set_refs(d["body"], old, new)

    nodes = []
    if prog.get("rtype") is not None:
        _typed_nodes(prog["rtype"], nodes, set())
    renamed = 0
    for body, anc in bodies:
        for d in body:
            if d["d"] not in ("message", "enum") or rng.random() >= p:
                continue
            related = set(anc) | {id(body)}
            pool = []
            for ob, oanc in bodies:
                if id(ob) in related or id(body) in oanc:
                    continue            # the body itself, an ancestor, or a descendant
                pool += [x["name"] for x in ob if x["d"] == d["d"]]
            forbidden = set(top_names) | subtree_names(body)
            for a in anc:
                forbidden |= {x["name"] for x in by_id[a][0] if "name" in x}
            pool = sorted(set(pool) - forbidden)
            if not pool:
                continue
            old, new = d["name"], rng.choice(pool)
            d["name"] = new
            set_refs(body, old, new)
            for n in nodes:
                if n.get("name") == old and (n["k"] == "enum" or n.get("_decl") is d):
                    n["name"] = new
            renamed += 1
    return renamed


def same_names_program():
    """Different definitions carrying the same bare name in different scopes (an enum Mode of 3 bits nested in Lamp,
    one of 12 bits nested in Motor, a message Cfg nested in both, equal-shaped arrays of both enums): what is
    generated for one use must not depend on which other definition of that name was seen first.  Traditional
    (no extensible marker); comes with its intended type tree."""
    def enum(n, vals):
        decl = {"d": "enum", "name": "Mode", "n": n,
                "body": [{"d": "efield", "name": "MODE_%s" % letters(i).upper(), "value": v} for i, v in enumerate(vals)]}
        return decl, {"k": "enum", "n": n, "name": "Mode", "_vals": sorted(vals), "_default": vals[0]}

    def cfg(n):
        decl = {"d": "message", "name": "Cfg", "ext": False,
                "body": [{"d": "field", "name": "level", "num": 1, "t": {"k": "uint", "n": n}}]}
        return decl, {"k": "msg", "name": "Cfg", "ext": False, "_decl": decl,
                      "fields": [{"num": 1, "name": "level", "t": {"k": "uint", "n": n}}]}

    def msg(name, items):
        """items: nested declarations (dict with 'd') or (field name, number, type expr, resolved type)"""
        body, fields = [], []
        for it in items:
            if isinstance(it, dict):
                body.append(it)
            else:
                fname, num, te, rt = it
                body.append({"d": "field", "name": fname, "num": num, "t": te})
                fields.append({"num": num, "name": fname, "t": rt})
        decl = {"d": "message", "name": name, "ext": False, "body": body}
        return decl, {"k": "msg", "name": name, "ext": False, "fields": fields, "_decl": decl}

    def arr(te, rt, cap):
        ate = {"k": "array", "elem": te, "cap": lit(cap), "ext": False}
        return ate, {"k": "array", "ext": False, "cap": cap, "elem": rt, "_texpr": ate}
    e3d, e3 = enum(3, [0, 1, 5])
    e12d, e12 = enum(12, [0, 7, 2049, 4095])
    c5d, c5 = cfg(5)
    c40d, c40 = cfg(40)
    a3te, a3 = arr(tref(["Mode"]), e3, 4)
    a12te, a12 = arr(tref(["Mode"]), e12, 4)
    lampd, lamp = msg("Lamp", [e3d, ("mode", 1, tref(["Mode"]), e3), c5d, ("cfg", 2, tref(["Cfg"]), c5),
                               ("modes", 3, a3te, a3)])
    motord, motor = msg("Motor", [e12d, ("mode", 1, tref(["Mode"]), e12), c40d, ("cfg", 2, tref(["Cfg"]), c40),
                                  ("rpm", 3, {"k": "int", "n": 24}, {"k": "int", "n": 24}), ("modes", 4, a12te, a12)])
    mste, ms = arr(tref(["Motor"]), motor, 2)
    topd, top = msg("Top", [("lamp", 1, tref(["Lamp"]), lamp), ("motor", 2, tref(["Motor"]), motor),
                            ("motors", 3, mste, ms)])
    return {"files": {"main": [{"d": "proto", "name": "main"}, lampd, motord, topd]}, "order": ["main"],
            "main": "main", "top": "Top", "rtype": top, "nbits": None}


LONG_WORDS = ["battery", "voltage", "millivolts", "accelerometer", "calibration", "offset", "temperature", "celsius",
              "hardware", "revision", "identifier", "controller", "measurement", "timestamp", "microseconds"]


def long_field_names(prog, rng, p=0.3):
    """Renames a share of the message fields to long snake_case names (29..90 characters); declarations and the
    intended type tree are kept in step.  Returns the number of fields renamed."""
    n = 0
    for m in message_nodes(prog["rtype"]):
        d = m.get("_decl")
        if d is None:
            continue
        fds = [x for x in d["body"] if x["d"] == "field"]
        if len(fds) != len(m["fields"]):
            continue
        used = {x["name"] for x in d["body"] if "name" in x}
        for fd, f in zip(fds, m["fields"]):
            if rng.random() < p:
                want = rng.choice([29, 30, 31, 32, 33, 40, 64, 90])
                name = "_".join(rng.choice(LONG_WORDS) for _ in range(12))[:want].rstrip("_")
                while len(name) < want:
                    name += "x"
                if name in used:
                    continue
                used.add(name)
                fd["name"] = f["name"] = name
                n += 1
    return n
