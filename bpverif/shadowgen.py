"""Random programs over a tiny name alphabet: the same name declared in several enclosing scopes
and in imported files, dotted paths, uses before declarations.  The generator has no notion of
what resolves to what -- Compiler.tla decides."""
import random

from . import gen

NAMES = ["A", "B", "C"]


class ShadowGen:
    def __init__(self, rng, with_lib=True, depth=3):
        self.rng = rng
        self.depth = depth
        self.width = 0
        self.with_lib = with_lib
        self.declared = []       # paths declared so far (rough: any scope), for biasing references

    def fresh_width(self):
        self.width = self.width % 60 + 1
        return self.width

    def ref_path(self, prefix_pool, here=()):
        """A path that names some earlier definition relative to an enclosing scope of the use
        site (which definition it actually denotes is the specification's business)."""
        r = self.rng
        here = list(here)
        cands = []
        for P in self.declared:
            # the definition is reachable from the deepest still-open scope that encloses it
            m = 0
            while m < len(P) - 1 and m < len(here) and P[m] == here[m]:
                m += 1
            cands.append(P[m:])
        if cands and r.random() < 0.985:
            dotted = [c for c in cands if len(c) > 1]
            if dotted and r.random() < 0.6:
                return list(r.choice(dotted))
            return list(r.choice(cands))
        return [r.choice(NAMES + prefix_pool) for _ in range(r.choice([1, 1, 2, 3]))]

    def type_expr(self, prefix_pool, here=()):
        r = self.rng
        x = r.random()
        if x < 0.2:
            return {"k": "uint", "n": self.fresh_width()}
        te = gen.tref(self.ref_path(prefix_pool, here))
        if x < 0.35:
            return {"k": "array", "elem": te, "cap": gen.lit(r.choice([1, 2, 3])), "ext": False}
        return te

    def scope_body(self, depth, path, prefix_pool, taken=None):
        """Body of a message: nested definitions and fields in random order."""
        r = self.rng
        body = []
        taken = set()
        nitems = r.randint(1, 4)
        num = 0
        for _ in range(nitems):
            x = r.random()
            if x < 0.3 and depth < self.depth:
                name = r.choice(NAMES)
                if name in taken and r.random() < 0.9:
                    continue
                taken.add(name)
                inner = self.scope_body(depth + 1, path + [name], prefix_pool)
                body.append({"d": "message", "name": name, "ext": False, "body": inner})
                self.declared.append(path + [name])
            elif x < 0.45:
                name = r.choice(NAMES)
                if name in taken and r.random() < 0.9:
                    continue
                taken.add(name)
                n = self.fresh_width()
                body.append({"d": "enum", "name": name, "n": n,
                             "body": [{"d": "efield", "name": "Z", "value": 0}]})
                self.declared.append(path + [name])
            else:
                num += 1
                fname = "f%d" % num
                body.append({"d": "field", "name": fname, "num": num, "t": self.type_expr(prefix_pool, path)})
        if not any(d["d"] == "field" for d in body):
            body.append({"d": "field", "name": "f9", "num": 9, "t": self.type_expr(prefix_pool, path)})
        return body

    def file_decls(self, prefix_pool, consts=True):
        r = self.rng
        decls = []
        taken = set()
        for _ in range(r.randint(2, 5)):
            x = r.random()
            name = r.choice(NAMES)
            if name in taken and r.random() < 0.9:
                continue
            taken.add(name)
            if x < 0.5:
                decls.append({"d": "message", "name": name, "ext": False,
                              "body": self.scope_body(1, [name], prefix_pool)})
                self.declared.append([name])
            elif x < 0.65:
                decls.append({"d": "enum", "name": name, "n": self.fresh_width(),
                              "body": [{"d": "efield", "name": "Z", "value": 0}]})
                self.declared.append([name])
            elif x < 0.85:
                base = {"k": "uint", "n": self.fresh_width()}
                t = base if r.random() < 0.6 else {"k": "array", "elem": base, "cap": gen.lit(2), "ext": False}
                decls.append({"d": "alias", "name": name, "t": t})
                self.declared.append([name])
            else:
                decls.append({"d": "const", "name": name, "v": gen.lit(r.randint(1, 3))})
        return decls

    def build(self):
        r = self.rng
        files = {}
        order = []
        prefix_pool = []
        # the proto's own name may be one of the names definitions carry (a message named like its proto, an import
        # whose as-name equals the importing proto's name): a proto is not a member of itself
        main = [{"d": "proto", "name": r.choice(["main", "main", "main", "A", "B", "C", "L"])}]
        if self.with_lib and r.random() < 0.6:
            save = self.declared
            self.declared = []
            libdecls = self.file_decls([])
            libdeclared = self.declared
            self.declared = save
            libname = r.choice(["lib", "lib", "lib", "A", "B"])
            files["lib"] = [{"d": "proto", "name": libname}] + libdecls
            order.append("lib")
            asname = r.choice([None, None, "A", "B", "L"])
            ref = asname or libname         # an imported file is a member under its as-name or its proto name
            prefix_pool = [ref]
            imp = {"d": "import", "file": "lib", "as": asname}
            pos_later = r.random() < 0.2
            if not pos_later:
                main.append(imp)
            self.declared += [[ref] + p for p in libdeclared]
        body = self.file_decls(prefix_pool)
        main += body
        if files and "imp" in locals() and pos_later:
            main.insert(r.randrange(2, len(main) + 1), imp)
        files["main"] = main
        order.append("main")
        return {"files": files, "order": order, "main": "main", "top": None}
