"""A small parser for the statements optimization mode generates (C and Go), producing the JSON
ASTs that Expr.tla evaluates.  Anything it does not understand raises ParseError (a machinery
failure for the check, never a verdict)."""
import re

from .gen import is_leaf, strip

TOKEN = re.compile(r"\s*(<<=|>>=|\|=|<<|>>|->|:=|[A-Za-z_]\w*|\d+|[=&|()\[\].*;,\-~{}+])")

C_TYPES = {"uint8_t": (8, False), "uint16_t": (16, False), "uint32_t": (32, False), "uint64_t": (64, False),
           "int8_t": (8, True), "int16_t": (16, True), "int32_t": (32, True), "int64_t": (64, True),
           "unsigned": (32, False), "int": (32, True), "char": (8, True), "long": (64, True)}
GO_TYPES = {"byte": (8, False), "uint8": (8, False), "uint16": (16, False), "uint32": (32, False),
            "uint64": (64, False), "int8": (8, True), "int16": (16, True), "int32": (32, True), "int64": (64, True),
            "int": (64, True), "uint": (64, False)}


class ParseError(Exception):
    pass


def tokenize(s):
    out, i = [], 0
    s = s.strip()
    while i < len(s):
        m = TOKEN.match(s, i)
        if not m:
            raise ParseError("cannot tokenize %r" % s[i:i + 20])
        out.append(m.group(1))
        i = m.end()
    return out


def const_bits(v):
    v &= (1 << 64) - 1
    return [(v >> b) & 1 for b in range(64)]


def nleaves(t):
    t = strip(t)
    if is_leaf(t):
        return 1
    if t["k"] == "array":
        return t["cap"] * nleaves(t["elem"])
    return sum(nleaves(f["t"]) for f in t["fields"])


def go_name(n):
    return "".join(p[:1].upper() + p[1:] for p in n.split("_") if p)


class Ctx:
    def __init__(self, msg, lang):
        self.msg = msg
        self.lang = lang

    def slot_of(self, chain):
        """chain: list of field names / integer indices from the message root -> (slot, leaf type)."""
        t = self.msg
        slot = 0
        for c in chain:
            t = strip(t)
            if isinstance(c, int):
                if t["k"] != "array" or not (0 <= c < t["cap"]):
                    raise ParseError("bad index in chain %r" % (chain,))
                slot += c * nleaves(t["elem"])
                t = t["elem"]
            else:
                if t["k"] != "msg":
                    raise ParseError("member %s of a non-message in %r" % (c, chain))
                found = None
                acc = 0
                for f in t["fields"]:
                    nm = f["name"] if self.lang == "c" else go_name(f["name"])
                    if nm == c:
                        found = f
                        break
                    acc += nleaves(f["t"])
                if found is None:
                    raise ParseError("no field %s in message %s" % (c, t.get("name")))
                slot += acc
                t = found["t"]
        t = strip(t)
        if not is_leaf(t):
            raise ParseError("chain %r does not end at a leaf" % (chain,))
        return slot, t


class Parser:
    def __init__(self, toks, ctx):
        self.t = toks
        self.i = 0
        self.ctx = ctx
        self.lang = ctx.lang
        self.lhs_type = None

    def peek(self, k=0):
        return self.t[self.i + k] if self.i + k < len(self.t) else None

    def eat(self, x=None):
        tok = self.peek()
        if tok is None or (x is not None and tok != x):
            raise ParseError("expected %r, got %r at %d in %s" % (x, tok, self.i, " ".join(self.t)))
        self.i += 1
        return tok

    # ---- chains ----
    def chain_tail(self):
        chain = []
        while self.peek() in (".", "["):
            if self.eat() == ".":
                chain.append(self.eat())
            else:
                chain.append(int(self.eat()))
                self.eat("]")
        return chain

    def field_node(self, chain):
        slot, lt = self.ctx.slot_of(chain)
        return {"n": "field", "slot": slot}, lt

    # ---- expressions ----
    def expr(self):
        return self.or_()

    def or_(self):
        a = self.and_() if self.lang == "c" else self.mul_go()
        while self.peek() == "|":
            self.eat()
            b = self.and_() if self.lang == "c" else self.mul_go()
            a = {"n": "or", "a": a, "b": b}
        return a

    def and_(self):
        a = self.shift()
        while self.peek() == "&":
            self.eat()
            a = {"n": "and", "a": a, "b": self.shift()}
        return a

    def shift(self):
        a = self.unary()
        while self.peek() in ("<<", ">>"):
            op = self.eat()
            n = self.const_int()
            a = {"n": "shl" if op == "<<" else "shr", "e": a, "by": n}
        return a

    def mul_go(self):
        # Go: << >> & share one precedence level, left associative
        a = self.unary()
        while self.peek() in ("<<", ">>", "&"):
            op = self.eat()
            if op == "&":
                a = {"n": "and", "a": a, "b": self.unary()}
            else:
                a = {"n": "shl" if op == "<<" else "shr", "e": a, "by": self.const_int()}
        return a

    def const_int(self):
        tok = self.eat()
        if not tok.isdigit():
            raise ParseError("shift distance %r" % tok)
        return int(tok)

    def c_type_ahead(self):
        """At '(' : is this a C cast?  Returns (ntokens, (w, sg) | 'ptr' | 'bool' | 'lhs') or None."""
        j = self.i + 1
        words = []
        while j < len(self.t) and re.match(r"[A-Za-z_]\w*$", self.t[j]):
            words.append(self.t[j])
            j += 1
        star = False
        if j < len(self.t) and self.t[j] == "*":
            star = True
            j += 1
        if j >= len(self.t) or self.t[j] != ")" or not words:
            return None
        if words in (["m"], ["s"]):
            return None
        n = j - self.i + 1
        if star:
            return n, "ptr"
        if words == ["bool"]:
            return n, "bool"
        if words == ["unsigned", "char"]:
            return n, (8, False)
        if len(words) == 1 and words[0] in C_TYPES:
            return n, C_TYPES[words[0]]
        if len(words) == 1 and self.peek(n) in ("(",):
            return n, "lhs"        # a typedef name (enum / alias): the field's own storage type
        return None

    def unary(self):
        tok = self.peek()
        if tok == "-":
            self.eat()
            v = self.unary()
            if v["n"] != "const":
                raise ParseError("unary minus on a non-constant")
            val = sum(b << i for i, b in enumerate(v["bits"]))
            return {"n": "const", "bits": const_bits(-val)}
        if tok is not None and tok.isdigit():
            self.eat()
            return {"n": "const", "bits": const_bits(int(tok))}
        if self.lang == "c":
            return self.unary_c()
        return self.unary_go()

    def unary_c(self):
        tok = self.peek()
        if tok == "(":
            ca = self.c_type_ahead()
            if ca is not None:
                n, ty = ca
                self.i += n
                if ty == "ptr":
                    # ((unsigned char *)&(CHAIN))[FI] -- the enclosing '(' was consumed by the caller
                    self.eat("&")
                    self.eat("(")
                    node, lt = self.lvalue_c()
                    self.eat(")")
                    return {"n": "ptr", "slot": node["slot"]}
                e = self.unary()
                if ty == "bool":
                    return {"n": "nz", "e": e}
                if ty == "lhs":
                    if self.lhs_type is None:
                        raise ParseError("typedef cast without a field on the left")
                    ty = self.lhs_type
                return {"n": "cast", "w": ty[0], "sg": ty[1], "e": e}
            # (*m) chain, or parenthesised expression
            if self.peek(1) == "*" and self.peek(2) == "m" and self.peek(3) == ")":
                node, lt = self.lvalue_c()
                return node
            self.eat("(")
            e = self.expr()
            while e.get("n") == "const" and self.peek() == "-" and (self.peek(1) or "").isdigit():
                # (-9223372036854775807 - 1): constant folding of a subtraction
                self.eat()
                val = sum(b << i for i, b in enumerate(e["bits"]))
                if val >= 1 << 63:
                    val -= 1 << 64
                e = {"n": "const", "bits": const_bits(val - int(self.eat()))}
            self.eat(")")
            if e.get("n") == "ptr" and self.peek() == "[":
                self.eat("[")
                fi = int(self.eat())
                self.eat("]")
                return {"n": "fbyte", "slot": e["slot"], "fi": fi}
            return e
        if tok == "s" and self.peek(1) == "[":
            self.eat()
            self.eat("[")
            k = int(self.eat())
            self.eat("]")
            return {"n": "wire", "k": k}
        raise ParseError("unexpected %r in %s" % (tok, " ".join(self.t)))

    def lvalue_c(self):
        self.eat("(")
        self.eat("*")
        self.eat("m")
        self.eat(")")
        chain = self.chain_tail()
        return self.field_node(chain)

    def unary_go(self):
        tok = self.peek()
        if tok == "(":
            self.eat()
            e = self.expr()
            self.eat(")")
            return e
        if tok == "s" and self.peek(1) == "[":
            self.eat()
            self.eat("[")
            k = int(self.eat())
            self.eat("]")
            return {"n": "wire", "k": k}
        if tok == "m" and self.peek(1) == ".":
            self.eat()
            node, lt = self.field_node(self.chain_tail())
            return node
        if tok is not None and tok not in ("m", "s") and re.match(r"[A-Za-z_]\w*$", tok) and self.peek(1) == "." \
                and self.peek(3) == "(":
            # a conversion to a type of an imported package: pkg.Type(expr)
            self.eat()
            self.eat(".")
            tok = self.peek()
        if tok is not None and re.match(r"[A-Za-z_]\w*$", tok) and self.peek(1) == "(":
            self.eat()
            self.eat("(")
            e = self.expr()
            self.eat(")")
            if tok in ("bool2byte", "byte2bool", "bool"):
                return {"n": "nz", "e": e}
            if tok in GO_TYPES:
                w, sg = GO_TYPES[tok]
            else:
                if self.lhs_type is None:
                    # a conversion to a named type inside an encoder: the operand's own type
                    return e
                w, sg = self.lhs_type
            return {"n": "cast", "w": w, "sg": sg, "e": e}
        raise ParseError("unexpected %r in %s" % (tok, " ".join(self.t)))


def storage_type(lt):
    n = 1 if lt["k"] == "bool" else 8 if lt["k"] == "byte" else lt["n"]
    W = 8 if lt["k"] == "bool" else 8 if n <= 8 else 16 if n <= 16 else 32 if n <= 32 else 64
    return (W, lt["k"] == "int")


def parse_statement(line, ctx):
    """One generated statement -> AST dict, or None for lines that carry no data flow."""
    s = line.strip()
    if not s or s.startswith("//"):
        return None
    s = s.rstrip(";").strip()
    if s in ("return 0", "return s", "return") or re.match(r"(var\s+s\b|s\s*:?=)", s):
        return None         # where s comes from is a separate observation (OpBody.buffer)
    if s.startswith("memset("):
        if re.fullmatch(r"memset\(m, 0, sizeof\(\*m\)\)", s):
            return {"s": "memset"}
        raise ParseError("memset form: " + s)
    if ctx.lang == "c" and s.startswith("if "):
        m = re.fullmatch(r"if \(\((\(\*m\)[\w.\[\]]*) >> (\d+)\) & 1\) (\(\*m\)[\w.\[\]]*) \|= (.+)", s)
        if not m or m.group(1) != m.group(3):
            raise ParseError("if form: " + s)
        p = Parser(tokenize(m.group(1)), ctx)
        node, lt = p.lvalue_c()
        c = Parser(tokenize(m.group(4)), ctx).expr()
        if c["n"] != "const":
            raise ParseError("if constant: " + s)
        W, sg = storage_type(lt)
        return {"s": "ifbit", "slot": node["slot"], "bit": int(m.group(2)), "bits": c["bits"][:W]}
    toks = tokenize(s)
    p = Parser(toks, ctx)
    # left-hand side
    if toks[0] == "s":
        lhs = p.unary()
        lt = None
    elif ctx.lang == "c":
        if toks[0] == "(" and toks[1] == "(":
            lhs = p.unary()           # ((unsigned char *)&(CHAIN))[FI]
            lt = None
        else:
            lhs, lt = p.lvalue_c()
    else:
        p.eat("m")
        lhs, lt = p.field_node(p.chain_tail())
    op = p.eat()
    if op in ("<<=", ">>="):
        n = p.const_int()
        if lhs["n"] != "field":
            raise ParseError("shift-assign on a non-field")
        return {"s": "shl" if op == "<<=" else "shr", "slot": lhs["slot"], "by": n}
    if op not in ("=", "|="):
        raise ParseError("assignment operator %r in %s" % (op, s))
    if lt is not None:
        p.lhs_type = storage_type(lt)
    e = p.expr()
    if p.peek() is not None:
        raise ParseError("trailing tokens in " + s)
    if lhs["n"] not in ("wire", "fbyte", "field"):
        raise ParseError("left-hand side " + s)
    return {"s": "set" if op == "=" else "or", "lhs": lhs, "e": e}


# ---------------------------------------------------------------------------------------
# cutting function bodies out of generated files
# ---------------------------------------------------------------------------------------

def c_bodies(ctext, cname):
    """{('enc'|'dec', 'le'|'be'|'only'): [lines]} for message with C name cname."""
    out = {}
    for kind, fn in (("enc", "Encode"), ("dec", "Decode")):
        m = re.search(r"^int %s%s\(struct \w+ \*m, unsigned char \*s\) \{\n(.*?)^\}" % (fn, re.escape(cname)),
                      ctext, re.M | re.S)
        if not m:
            continue
        body = m.group(1).split("\n")
        if any(l.strip() == "#ifndef BP_BIG_ENDIAN" for l in body):
            cur = None
            for l in body:
                st = l.strip()
                if st == "#ifndef BP_BIG_ENDIAN":
                    cur = "le"
                elif st == "#else":
                    cur = "be"
                elif st == "#endif":
                    cur = None
                elif cur:
                    out.setdefault((kind, cur), []).append(l)
                elif st and st != "return 0;":
                    raise ParseError("statement outside the endian branches: " + st)
        else:
            out[(kind, "only")] = body
    return out


def go_bodies(gtext, gname):
    out = {}
    m = re.search(r"^func \(m \*%s\) Encode\(\) \[\]byte \{\n(.*?)^\}" % re.escape(gname), gtext, re.M | re.S)
    if m:
        out["enc"] = m.group(1).split("\n")
    m = re.search(r"^func \(m \*%s\) Decode\(s \[\]byte\) \{\n(.*?)^\}" % re.escape(gname), gtext, re.M | re.S)
    if m:
        out["dec"] = m.group(1).split("\n")
    return out


def parse_body(lines, msg, lang):
    ctx = Ctx(msg, lang)
    out = []
    for l in lines:
        st = parse_statement(l, ctx)
        if st is not None:
            out.append(st)
    return out
