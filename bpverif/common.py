"""Shared paths, environment and scratch handling for the bitproto verification harness.

The harness is a *projection* layer: it renders abstract programs to text, drives the
real code under /repo and records what it observes.  It contains no reference encoder,
resolver or rule checker; every verdict is computed by TLC from the TLA+ specification.
"""
import os
import shutil
import sys
import tempfile

VERIF = os.path.dirname(os.path.dirname(os.path.abspath(__file__)))
REPO = os.environ.get("BPVERIF_REPO", "/repo")
SPEC = os.path.join(VERIF, "spec")
EVIDENCE = os.environ.get("BPVERIF_EVIDENCE", os.path.join(VERIF, "evidence"))     # redirected by the seed regression only
REPLAYS = os.environ.get("BPVERIF_REPLAYS", os.path.join(VERIF, "replays"))
PY = "/venv/bin/python"

REPO_COMPILER = os.path.join(REPO, "compiler")
REPO_LIBPY = os.path.join(REPO, "lib", "py")
REPO_LIBC = os.path.join(REPO, "lib", "c")
REPO_LIBGO = os.path.join(REPO, "lib", "go")


def seed():
    try:
        return int(os.environ.get("VERIF_SEED", "0"))
    except ValueError:
        return 0


def tier(default="quick"):
    t = os.environ.get("VERIF_TIER", default)
    return t if t in ("quick", "thorough") else default


def use_repo():
    """Put the working tree of /repo first on sys.path and check it is what gets imported."""
    for p in (REPO_LIBPY, REPO_COMPILER):
        if p in sys.path:
            sys.path.remove(p)
        sys.path.insert(0, p)
    os.environ["BITPROTO_VERIF"] = "1"
    import bitproto  # noqa

    if not os.path.abspath(bitproto.__file__).startswith(os.path.abspath(REPO) + os.sep):
        raise MachineryError("bitproto imported from %s, not from %s" % (bitproto.__file__, REPO))
    import bitprotolib  # noqa

    if not os.path.abspath(bitprotolib.__file__).startswith(os.path.abspath(REPO) + os.sep):
        raise MachineryError("bitprotolib imported from %s" % bitprotolib.__file__)


def repo_env(extra=None):
    env = dict(os.environ)
    env["PYTHONPATH"] = REPO_COMPILER + os.pathsep + REPO_LIBPY
    env["BITPROTO_VERIF"] = "1"
    env.setdefault("PYTHONHASHSEED", "0")
    env.setdefault("PYTHONUTF8", "1")       # schema files are UTF-8 text whatever the caller's locale
    if extra:
        env.update(extra)
    return env


class MachineryError(Exception):
    """The verification machinery itself failed (exit status 2, never a verdict)."""


class Scratch:
    """One scratch directory per run, removed on exit."""

    def __init__(self, tag="run"):
        base = os.environ.get("TMPDIR", "/tmp")
        self.dir = tempfile.mkdtemp(prefix="bpverif-%s-" % tag, dir=base)
        self.n = 0

    def sub(self, name=None):
        self.n += 1
        d = os.path.join(self.dir, name or ("d%05d" % self.n))
        os.makedirs(d, exist_ok=True)
        return d

    def cleanup(self):
        shutil.rmtree(self.dir, ignore_errors=True)

    def __enter__(self):
        return self

    def __exit__(self, *a):
        if not os.environ.get("BPVERIF_KEEP"):
            self.cleanup()
