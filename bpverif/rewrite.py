"""The wire-preserving schema rewrites of C12, applied to a program and its intended resolved type
together.  A rewrite may turn out not to be layout-preserving for the program at hand (e.g. a
rename that captures another reference, a move that breaks declare-before-use): that is decided
by the specification (the step is then dropped), never assumed here."""
import copy
import random

from . import gen


def all_decls(decls):
    for d in decls:
        yield d
        if d["d"] in ("message", "enum"):
            yield from all_decls(d["body"])


def type_sites(pr):
    """(owner, key) pairs such that owner[key] is a type expression."""
    out = []
    for ds in pr["files"].values():
        for d in all_decls(ds):
            if d["d"] in ("field", "alias"):
                out.append((d, "t"))
                if d["t"]["k"] == "array":
                    out.append((d["t"], "elem"))
    return out


def map_paths(pr, fn, files=None):
    """Applies fn(path) -> path to every reference path of the program (optionally one file only)."""
    for fname, ds in pr["files"].items():
        if files is not None and fname not in files:
            continue
        for d in all_decls(ds):
            if d["d"] in ("field", "alias"):
                t = d["t"]
                for te in ([t, t["elem"]] if t["k"] == "array" else [t]):
                    if te["k"] == "ref":
                        te["path"] = fn(list(te["path"]))
                if t["k"] == "array" and t["cap"]["e"] == "ref":
                    t["cap"]["path"] = fn(list(t["cap"]["path"]))
            if d["d"] in ("const", "option"):
                v = d["v"]
                if v["e"] == "ref":
                    v["path"] = fn(list(v["path"]))
                elif v["e"] == "toks":
                    for tk in v["toks"]:
                        if tk[0] == "ref":
                            tk[1] = fn(list(tk[1]))


def rtype_nodes(t, acc=None, seen=None):
    acc = acc if acc is not None else []
    seen = seen if seen is not None else set()
    if id(t) in seen:
        return acc
    seen.add(id(t))
    acc.append(t)
    k = t["k"]
    if k == "alias":
        rtype_nodes(t["to"], acc, seen)
    elif k == "array":
        rtype_nodes(t["elem"], acc, seen)
    elif k == "msg":
        for f in t["fields"]:
            rtype_nodes(f["t"], acc, seen)
    return acc


def map_value(t, v, fn):
    """Rebuilds a value tree; fn(msg type node, list of field values) -> list of field values."""
    k = t["k"]
    if gen.is_leaf(t):
        return v
    if k == "alias":
        return map_value(t["to"], v, fn)
    if k == "array":
        return [map_value(t["elem"], x, fn) for x in v]
    vals = [map_value(f["t"], x, fn) for f, x in zip(t["fields"], v)]
    return fn(t, vals)


# ---------------------------------------------------------------------------------------
# the rewrites: each returns (new program, value mapper or None, description) or None
# ---------------------------------------------------------------------------------------

def r_rename(pr, rng):
    p = copy.deepcopy(pr)
    ds = [d for x in p["files"].values() for d in all_decls(x) if d["d"] in
          ("message", "enum", "alias", "const", "field", "efield")]
    if not ds:
        return None
    d = rng.choice(ds)
    old = d["name"]
    existing = sorted({x["name"] for x in ds if x["d"] == d["d"] and x["name"] != old})
    if existing and rng.random() < 0.35:
        new = rng.choice(existing)          # may shadow or capture: the specification decides
    else:
        base = {"message": "Rn", "enum": "Re", "alias": "Rt", "const": "RC_", "field": "r_", "efield": "RV_"}[d["d"]]
        new = base + gen.letters(rng.randrange(26 ** 3)) if d["d"] not in ("const", "efield") else \
            base + gen.letters(rng.randrange(26 ** 3)).upper()
    d["name"] = new
    if d["d"] in ("message", "enum", "alias", "const"):
        map_paths(p, lambda path: [new if x == old else x for x in path])
    for n in rtype_nodes(p["rtype"]):
        if n["k"] in ("msg", "alias", "enum") and n.get("name") == old and d["d"] in ("message", "alias", "enum"):
            n["name"] = new
        if n["k"] == "msg" and d["d"] == "field" and n.get("_decl") is not None:
            for f, fd in zip(n["fields"], [x for x in n["_decl"]["body"] if x["d"] == "field"]):
                f["name"] = fd["name"]
    if d["d"] == "message" and p.get("top") == old:
        p["top"] = new
    return p, None, "rename %s %s -> %s" % (d["d"], old, new)


def r_rename_shadow(pr, rng):
    """Renames a nested definition to the name of an earlier top-level definition of the same kind:
    legal shadowing (references inside the host keep denoting the nested one)."""
    p = copy.deepcopy(pr)
    cands = []
    for fname, ds in p["files"].items():
        for i, host in enumerate(ds):
            if host["d"] != "message":
                continue
            earlier = [d for d in ds[:i] if d["d"] in ("message", "enum")]
            for x in all_decls(host["body"]):
                if x["d"] in ("message", "enum"):
                    for t in earlier:
                        if t["d"] == x["d"] and t["name"] != x["name"]:
                            cands.append((x, t))
    if not cands:
        return None
    x, t = rng.choice(cands)
    old, new = x["name"], t["name"]
    x["name"] = new
    map_paths(p, lambda path: [new if c == old else c for c in path])
    for n in rtype_nodes(p["rtype"]):
        if n["k"] in ("msg", "enum") and n.get("name") == old:
            n["name"] = new
    return p, None, "rename nested %s %s -> %s (shadowing a top-level definition)" % (x["d"], old, new)


def r_reorder_fields(pr, rng):
    p = copy.deepcopy(pr)
    msgs = [n for n in rtype_nodes(p["rtype"]) if n["k"] == "msg" and len(n["fields"]) >= 2 and n.get("_decl")]
    if not msgs:
        return None
    m = rng.choice(msgs)
    decl = m["_decl"]
    fdecls = [x for x in decl["body"] if x["d"] == "field"]
    others = [x for x in decl["body"] if x["d"] != "field"]
    perm = list(range(len(fdecls)))
    rng.shuffle(perm)
    if perm == sorted(perm):
        perm.reverse()
    decl["body"] = others + [fdecls[i] for i in perm]
    oldfields = list(m["fields"])
    m["fields"] = [oldfields[i] for i in perm]
    target_name = m["name"]
    uid = m.get("_uid")

    def mapper(oldroot, v):
        def fn(node, vals):
            if uid is not None and node.get("_uid") == uid and len(vals) == len(perm):
                return [vals[i] for i in perm]
            return vals
        return map_value(oldroot, v, fn)
    return p, mapper, "reorder fields of %s" % target_name


def r_reorder_defs(pr, rng):
    p = copy.deepcopy(pr)
    f = rng.choice(list(p["files"]))
    ds = p["files"][f]
    idx = [i for i, d in enumerate(ds) if d["d"] in ("message", "enum", "alias", "const")]
    if len(idx) < 2:
        return None
    i = rng.choice(idx[:-1])
    j = idx[idx.index(i) + 1]
    ds[i], ds[j] = ds[j], ds[i]
    return p, None, "swap definitions %s and %s" % (ds[j]["name"], ds[i]["name"])


def r_alias_intro(pr, rng):
    p = copy.deepcopy(pr)
    cands = []
    for fname, ds in p["files"].items():
        for top in ds:
            if top["d"] != "message":
                continue
            for d in all_decls([top]):
                if d["d"] == "field":
                    t = d["t"]
                    if t["k"] in ("bool", "byte", "uint", "int"):
                        cands.append((fname, top, d))
                    elif t["k"] == "array" and t["elem"]["k"] != "ref":
                        cands.append((fname, top, d))
    if not cands:
        return None
    fname, top, d = rng.choice(cands)
    name = "Al" + gen.letters(rng.randrange(26 ** 3))
    ds = p["files"][fname]
    ds.insert(ds.index(top), {"d": "alias", "name": name, "t": d["t"]})
    d["t"] = gen.tref([name])
    return p, None, "introduce alias %s" % name


def r_alias_inline(pr, rng):
    p = copy.deepcopy(pr)
    cands = []
    for fname, ds in p["files"].items():
        aliases = {d["name"]: d for d in ds if d["d"] == "alias"}
        for d in all_decls(ds):
            if d["d"] == "field" and d["t"]["k"] == "ref" and len(d["t"]["path"]) == 1 and d["t"]["path"][0] in aliases:
                cands.append((d, aliases[d["t"]["path"][0]]))
    if not cands:
        return None
    d, a = rng.choice(cands)
    d["t"] = copy.deepcopy(a["t"])
    return p, None, "inline alias %s" % a["name"]


def r_unnest(pr, rng):
    p = copy.deepcopy(pr)
    cands = []
    for fname, ds in p["files"].items():
        for top in ds:
            if top["d"] == "message":
                for x in top["body"]:
                    if x["d"] in ("message", "enum"):
                        cands.append((fname, top, x))
    if not cands:
        return None
    fname, top, x = rng.choice(cands)
    top["body"].remove(x)
    ds = p["files"][fname]
    ds.insert(ds.index(top), x)
    return p, None, "move nested %s %s to top level" % (x["d"], x["name"])


def r_nest(pr, rng):
    p = copy.deepcopy(pr)
    cands = []
    for fname, ds in p["files"].items():
        tops = [d for d in ds if d["d"] == "message"]
        for i, d in enumerate(ds):
            if d["d"] in ("message", "enum") and d["name"] != p.get("top"):
                later = [t for t in ds[i + 1:] if t["d"] == "message"]
                if later:
                    cands.append((fname, d, later[0]))
    if not cands:
        return None
    fname, d, host = rng.choice(cands)
    p["files"][fname].remove(d)
    host["body"].insert(0, d)
    return p, None, "move %s %s into message %s" % (d["d"], d["name"], host["name"])


def r_to_import(pr, rng):
    p = copy.deepcopy(pr)
    main = p["files"][p["main"]]
    cands = [d for d in main if d["d"] in ("message", "enum", "alias", "const") and d["name"] != p.get("top")]
    if not cands:
        return None
    d = rng.choice(cands)
    libname = None
    for x in main:
        if x["d"] == "import" and not x.get("as"):
            libname = x["file"]
    if libname is None:
        libname = "moved"
        if libname in p["files"]:
            return None
        files = {libname: [{"d": "proto", "name": libname}]}
        files.update(p["files"])
        p["files"] = files
        p["order"] = [libname] + list(p["order"])
        pi = [i for i, x in enumerate(main) if x["d"] == "proto"][0]
        main.insert(pi + 1, {"d": "import", "file": libname, "as": None})
    main.remove(d)
    p["files"][libname].append(d)
    nm = d["name"]
    map_paths(p, lambda path: ([libname] + path) if path and path[0] == nm else path, files=[p["main"]])
    return p, None, "move %s %s into imported file %s" % (d["d"], nm, libname)


def r_layout(pr, rng):
    p = copy.deepcopy(pr)
    for ds in p["files"].values():
        for d in all_decls(ds):
            if rng.random() < 0.3:
                d["comment"] = ["c%d" % rng.randrange(1000)] * rng.randint(1, 3)
            else:
                d.pop("comment", None)
            d["blank_before"] = rng.choice([0, 0, 1, 2])
            if d["d"] not in ("message", "enum"):
                d["semi"] = rng.random() < 0.5
    p["_layout_indent"] = rng.choice([0, 2, 4, 7])
    return p, None, "comments / whitespace / semicolons"


def r_literal_to_const(pr, rng):
    p = copy.deepcopy(pr)
    cands = []
    for fname, ds in p["files"].items():
        for top in ds:
            for d in all_decls([top]):
                if d["d"] in ("field", "alias") and d["t"]["k"] == "array" and d["t"]["cap"]["e"] == "int":
                    cands.append((fname, top, d["t"]))
    if not cands:
        return None
    fname, top, t = rng.choice(cands)
    c = t["cap"]["v"]
    a = rng.choice([1, 2, 3, 7, 10])
    toks = [["lp"], ["int", c // a], ["op", "*"], ["int", a, "hex"], ["rp"], ["op", "+"], ["int", c % a]]
    r = rng.random()
    if r < 0.3:
        toks = [["int", c + 5], ["op", "-"], ["int", 10], ["op", "/"], ["int", 2]]
    elif r < 0.55:
        # an inexact division with a negative dividend in between (floor division): c + 3 + (3 - 8) / 2 = c
        toks = [["int", c + 3], ["op", "+"], ["lp"], ["int", 3], ["op", "-"], ["int", 8], ["rp"], ["op", "/"], ["int", 2]]
    name = "CX_" + gen.letters(rng.randrange(26 ** 3)).upper()
    ds = p["files"][fname]
    ds.insert(ds.index(top), {"d": "const", "name": name,
                              "v": {"e": "toks", "toks": toks, "glue": rng.choice(["spaced", "tight", "left", "right"])}})
    t["cap"] = {"e": "ref", "path": [name]}
    return p, None, "capacity %d -> constant expression" % c


def r_renumber(pr, rng):
    p = copy.deepcopy(pr)
    msgs = [n for n in rtype_nodes(p["rtype"]) if n["k"] == "msg" and n["fields"] and n.get("_decl")]
    if not msgs:
        return None
    m = rng.choice(msgs)
    nums = sorted(f["num"] for f in m["fields"])
    new = sorted(rng.sample(range(1, 256), len(nums)))
    mp = dict(zip(nums, new))
    for f in m["fields"]:
        f["num"] = mp[f["num"]]
    for x in m["_decl"]["body"]:
        if x["d"] == "field":
            x["num"] = mp[x["num"]]
    return p, None, "renumber fields of %s order-preservingly" % m["name"]


REWRITES = [r_rename, r_rename, r_rename_shadow, r_rename_shadow, r_reorder_fields, r_reorder_defs, r_alias_intro, r_alias_inline, r_unnest, r_nest,
            r_to_import, r_layout, r_literal_to_const, r_renumber]


def chain(pr, rng, steps):
    """[(program, value mapper from the previous version, description)], first entry is the base."""
    out = [(copy.deepcopy(pr), None, "base")]
    for _ in range(steps):
        for _try in range(5):
            r = rng.choice(REWRITES)(out[-1][0], rng)
            if r is not None:
                out.append(r)
                break
    return out
