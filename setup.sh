#!/bin/sh
# Offline setup: syntax-check every specification module (nothing is fetched or installed).
set -e
cd /verif/spec
for f in *.tla; do
  tla-sany "$f" > /tmp/bpverif-sany.$$ 2>&1 || { cat /tmp/bpverif-sany.$$; rm -f /tmp/bpverif-sany.$$; exit 1; }
  if grep -q "Semantic errors\|\*\*\* Errors\|Parse Error" /tmp/bpverif-sany.$$; then cat /tmp/bpverif-sany.$$; rm -f /tmp/bpverif-sany.$$; exit 1; fi
done
rm -f /tmp/bpverif-sany.$$
mkdir -p /verif/evidence
echo "setup ok"
