#!/bin/sh
# usage: tools_reverttest.sh <grep pattern of a fix commit subject> <property> [tier]
# temporarily reverts that fix in the working tree of /repo, runs the check, restores the tree
g=$1; p=$2; t=${3:-quick}
git -C /repo status --short | grep -q . && { echo "repo dirty"; exit 3; }
c=$(git -C /repo log --format=%h -n1 --grep="$g")
[ -z "$c" ] && { echo "no such commit"; exit 3; }
git -C /repo show $c | git -C /repo apply -R || { echo "cannot revert"; exit 3; }
timeout 3000 /verif/check $p --tier $t > /tmp/reverttest.$$.log 2>&1; rc=$?
git -C /repo checkout -- .
grep -E "^VIOLATION|^KNOWN|^MACHINERY|^C[0-9]+ " /tmp/reverttest.$$.log | head -4
grep -A1 "^VIOLATION" /tmp/reverttest.$$.log | grep "why" | sort | uniq -c | sort -rn | head -4
rm -f /tmp/reverttest.$$.log
echo "revert of $c vs $p: exit=$rc"
